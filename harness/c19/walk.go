//verif:package workflow/utils/walk
//verif:uses walk.Plan (exported), Item.Value, Item.Chain

package walk

import (
	"github.com/element-of-surprise/coercion/internal/zzverif/api"
	"github.com/element-of-surprise/coercion/internal/zzverif/shape"
	"github.com/element-of-surprise/coercion/workflow"
)

type vhItem struct {
	v     workflow.Object
	chain []workflow.Object
}

// vhRef is the independent recursive enumeration in execution order (written from the statement of C19).
func vhRef(p *workflow.Plan) []vhItem {
	var out []vhItem
	emit := func(v workflow.Object, chain ...workflow.Object) {
		out = append(out, vhItem{v: v, chain: append([]workflow.Object{}, chain...)})
	}
	checks := func(c *workflow.Checks, chain ...workflow.Object) {
		if c == nil {
			return
		}
		emit(c, chain...)
		for _, a := range c.Actions {
			emit(a, append(append([]workflow.Object{}, chain...), c)...)
		}
	}
	emit(p)
	pg := shape.PlanGroups(p)
	checks(pg[0], p)
	checks(pg[1], p)
	checks(pg[2], p)
	for _, b := range p.Blocks {
		emit(b, p)
		bg := shape.BlockGroups(b)
		checks(bg[0], p, b)
		checks(bg[1], p, b)
		checks(bg[2], p, b)
		for _, s := range b.Sequences {
			emit(s, p, b)
			for _, a := range s.Actions {
				emit(a, p, b, s)
			}
		}
		checks(bg[3], p, b)
		checks(bg[4], p, b)
	}
	checks(pg[3], p)
	checks(pg[4], p)
	return out
}

// VerifC19 decides C19 for every plan shape within the bound and every early-stop position k (symbolic).
func VerifC19() {
	p := shape.Plan(shape.Cfg{
		MinBlocks: 0, MaxBlocks: api.Bound("blocks", 2, 2),
		MinSeqs: 0, MaxSeqs: api.Bound("seqs", 2, 2),
		MinActions: 0, MaxActions: api.Bound("actions", 2, 2),
		PlanGroups: shape.GroupsFamily, BlockGroups: shape.GroupsFamily,
		CheckActions: api.Bound("check_actions", 1, 2), NilSlices: true,
		SimpleTailBlocks: api.Bound("simple_tail_blocks", 1, 0) == 1, SimpleTailSeqs: true,
	})
	want := vhRef(p)
	k := api.NondetInt("stop_at") // the consumer stops when it has received k items; k<0 or k>total: never stops
	var got []Item
	n := 0
	stopped := false
	yieldedAfterStop := false
	for it := range Plan(p) {
		if stopped {
			yieldedAfterStop = true
		}
		got = append(got, it)
		n++
		if n == k {
			stopped = true
			break
		}
	}
	api.Assert(!yieldedAfterStop, "no yield after the consumer stopped")
	total := len(want)
	if stopped {
		api.Assert(len(got) == k, "exactly k items before stop")
		api.Reach("early stop explored")
	} else {
		api.Assert(len(got) == total, "every object yielded exactly once")
		api.Reach("full walk explored")
	}
	// Compare after the walk finished: catches a chain whose backing array was overwritten later.
	for i := range got {
		if i >= total {
			api.Assert(false, "more items than objects")
			break
		}
		api.Assert(got[i].Value == want[i].v, "execution order")
		api.Assert(len(got[i].Chain) == len(want[i].chain), "chain length")
		if len(got[i].Chain) == len(want[i].chain) {
			for j := range want[i].chain {
				api.Assert(got[i].Chain[j] == want[i].chain[j], "chain is the exact list of ancestors")
			}
		}
	}
	if total > 8 {
		api.Reach("plan with more than 8 objects")
	}
}
