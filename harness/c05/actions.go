//verif:package internal/execute/sm/actions
//verif:uses Data, Runner (exported), pluginTimeoutMsg (unexported const, message check only)

package actions

import (
	"time"

	"github.com/element-of-surprise/coercion/internal/zzverif/api"
	"github.com/element-of-surprise/coercion/internal/zzverif/kit"
	"github.com/element-of-surprise/coercion/workflow"
	"github.com/element-of-surprise/coercion/workflow/context"
	"github.com/gostdlib/base/statemachine"
)

// vhRunAction drives one action through the real action state machine (Start/GetPlugin/Execute/exec/End)
// with the model plugin (verdict of each attempt is a solver variable) and the model vault.
func vhRunAction(bounded bool, plugin string) {
	mon := kit.NewMon(kit.ModeFull)
	reg := kit.NewRegistry(mon)
	vault := kit.NewVault()
	retries := api.NondetInt("retries")
	R := api.Bound("R", 2, 3)
	if bounded {
		// count clause: every outcome script of at most R+1 attempts
		api.Assume(retries <= R)
		api.Assume(retries >= -1)
	}
	timeout := api.NondetDuration("timeout")
	api.Assume(timeout >= 5*time.Second) // what Submit enforces (C16); shorter timeouts are outside the claim
	a := &workflow.Action{ID: workflow.NewV7(), Name: "a", Descr: "a", Plugin: plugin, Timeout: timeout, Retries: retries,
		Req: kit.Req{}, State: &workflow.State{}}
	in := &kit.Info{Key: "a", Action: a, Group: -1}
	mon.ByID[a.ID] = in
	vault.Img[a.ID] = &kit.Image{Kind: workflow.OTAction, Name: "a"}

	calledAfterFinal := false
	final := false
	overlap := false
	mon.OnEnter = func(in *kit.Info, c *kit.Call) {
		if final {
			calledAfterFinal = true
		}
		if mon.Inflight["a"] > 1 {
			overlap = true
		}
		// attempts already recorded durably before the next invocation starts
		im := vault.Img[a.ID]
		api.Assert(im.Status == workflow.Running, "action durably Running before its plugin is invoked")
		api.Assert(len(im.Attempts) == c.N-1, "previous attempts durable before the next attempt")
	}
	mon.OnExit = func(in *kit.Info, c *kit.Call) {
		if c.Verdict == kit.VOk || c.Verdict == kit.VPermanent || c.Verdict == kit.VWrongType {
			final = true
		}
	}

	ctx := context.SetActionID(context.Background(), a.ID)
	req := statemachine.Request[Data]{Ctx: ctx, Data: Data{Action: a, Updater: vault, Registry: reg}, Next: Runner{}.Start}
	_, err := statemachine.Run("c05", req)
	api.Quiesce()

	calls := mon.Calls["a"]
	api.Assert(!calledAfterFinal, "no invocation after success or a permanent error")
	api.Assert(!overlap, "invocations of one action never overlap")
	if bounded {
		api.Assert(calls <= retries+1 || (retries < 0 && calls == 0), "at most Retries+1 invocations")
	}
	api.Assert(len(a.Attempts) == calls, "every invocation recorded as exactly one attempt")
	sawOverrun, sawWrong, sawRetry := false, false, false
	if len(a.Attempts) == calls {
		for i, at := range a.Attempts {
			c := mon.Log[i]
			api.Assert(!at.End.Before(at.Start), "attempt start<=end")
			if i > 0 {
				api.Assert(!at.Start.Before(a.Attempts[i-1].End), "attempts in order")
				sawRetry = true
			}
			switch c.Verdict {
			case kit.VOk:
				r, isResp := at.Resp.(kit.Resp)
				api.Assert(at.Err == nil && isResp && r.N == c.N, "successful attempt carries the plugin's response")
			case kit.VPermanent:
				api.Assert(at.Err != nil && at.Err.Permanent && at.Err.Message == "permanent" && at.Resp == nil, "attempt carries the plugin's permanent error")
			case kit.VTransient:
				api.Assert(at.Err != nil && !at.Err.Permanent && at.Err.Message == "transient", "attempt carries the plugin's transient error")
			case kit.VWrongType:
				sawWrong = true
				api.Assert(at.Err != nil && at.Err.Permanent, "wrong response type fails the action permanently")
				api.Assert(at.Resp == nil, "wrong-typed response is not stored")
			case kit.VOverrun:
				sawOverrun = true
				// The plugin returns (with its own retryable error) only after its context was cancelled; the engine's
				// select may then see the result and the expired deadline together, so either record is legitimate.
				api.Assert(at.Err != nil && !at.Err.Permanent && (at.Err.Message == pluginTimeoutMsg || at.Err.Message == "cancelled"), "overrun recorded as a retryable timeout failure")
				if at.Err != nil && at.Err.Message == pluginTimeoutMsg {
					api.Reach("timeout message recorded")
				}
				api.Assert(c.CtxErr, "overrunning plugin had its context cancelled")
			}
		}
	}
	if len(a.Attempts) > 0 {
		last := a.Attempts[len(a.Attempts)-1]
		api.Assert((a.State.Status == workflow.Completed) == (last.Err == nil), "action Completed exactly when its final attempt has no error")
	} else {
		api.Assert(a.State.Status == workflow.Failed, "an action that was never attempted is Failed")
	}
	api.Assert((err == nil) == (a.State.Status == workflow.Completed), "state machine error exactly when the action failed")
	api.Assert(a.State.Status == workflow.Completed || a.State.Status == workflow.Failed, "action ends Completed or Failed")
	api.Assert(!a.State.End.Before(a.State.Start), "action start<=end")
	im := vault.Img[a.ID]
	api.Assert(im.Status == a.State.Status && len(im.Attempts) == len(a.Attempts), "final state and all attempts are durable")
	api.Assert(mon.InflightTotal() == 0, "no invocation still in flight at the end")
	if sawOverrun {
		api.Reach("overrun explored")
	}
	if sawWrong {
		api.Reach("wrong type explored")
	}
	if sawRetry {
		api.Reach("retry explored")
	}
	if calls == R+1 && bounded {
		api.Reach("retry budget exhausted")
	}
}

// VerifC05Count: every outcome script for Retries in [-1, R]; all clauses including the count.
func VerifC05Count() { vhRunAction(true, "action") }

// VerifC05Check: the same for a check action (check plugin).
func VerifC05Check() { vhRunAction(true, "check") }

// VerifC05AnyRetries: Retries is any 64-bit value; only the all-transient script is cut at the unrolling bound.
func VerifC05AnyRetries() { vhRunAction(false, "action") }
