//verif:package workflow/utils/clone
//verif:uses Plan, Block, Sequence, Checks, Action, WithKeepState, WithKeepSecrets (all exported)

package clone

import (
	"fmt"
	"time"

	coercion "github.com/element-of-surprise/coercion"
	"github.com/element-of-surprise/coercion/internal/zzverif/api"
	"github.com/element-of-surprise/coercion/internal/zzverif/kit"
	"github.com/element-of-surprise/coercion/internal/zzverif/shape"
	"github.com/element-of-surprise/coercion/plugins"
	"github.com/element-of-surprise/coercion/workflow"
	"github.com/element-of-surprise/coercion/workflow/context"
	"github.com/element-of-surprise/coercion/workflow/utils/walk"
	"github.com/google/uuid"
)

// vhOriginal builds a plan with every scalar of the definition symbolic. When ran is true it also carries
// engine-owned state with symbolic content (ids, statuses, times, reason, submit time, 0..2 attempts per action).
func vhOriginal(ran bool) *workflow.Plan {
	p := shape.Plan(shape.Cfg{MinBlocks: 1, MaxBlocks: api.Bound("blocks", 1, 2), MinSeqs: 1, MaxSeqs: api.Bound("seqs", 2, 2), MinActions: 1, MaxActions: api.Bound("actions", 2, 2),
		PlanGroups: api.Bound("plan_groups_family", shape.GroupsNoneOrAll, shape.GroupsFamily), BlockGroups: api.Bound("block_groups_family", shape.GroupsNoneOrAll, shape.GroupsFamily),
		CheckActions: 1, SimpleTailBlocks: true, SimpleTailSeqs: true, WithState: ran})
	switch api.Choose("meta_and_group", 3) {
	case 1:
		p.Meta = []byte{}
		p.GroupID = workflow.NewV7()
	case 2:
		p.Meta = []byte{api.NondetUint8("meta0"), api.NondetUint8("meta1")}
	}
	attemptsDone := false
	symDone := false
	n := 0
	name := func(s string) string { n++; return fmt.Sprintf("%s%d", s, n) }
	// statuses: symbolic on the plan, blocks, sequences and the designated action; one common concrete value
	// (picked by a case split) on check groups and all other actions, because clone branches on check statuses
	common := workflow.NotStarted
	if ran {
		common = []workflow.Status{workflow.NotStarted, workflow.Running, workflow.Completed, workflow.Failed}[api.Choose("check_status", 4)]
	}
	st := func(s *workflow.State) {
		if s == nil {
			return
		}
		s.Status = workflow.Status(api.NondetInt(name("status")))
		s.Start = api.NondetTime(name("start"))
		s.End = api.NondetTime(name("end"))
	}
	stc := func(s *workflow.State) {
		if s == nil {
			return
		}
		s.Status = common
		s.Start = api.NondetTime(name("start"))
		s.End = api.NondetTime(name("end"))
	}
	if ran {
		p.Reason = workflow.FailureReason(api.NondetInt("reason"))
		p.SubmitTime = api.NondetTime("submit")
	}
	for it := range walk.Plan(p) {
		switch x := it.Value.(type) {
		case *workflow.Plan:
			st(x.State)
		case *workflow.Checks:
			x.Delay = api.NondetDuration(name("delay"))
			stc(x.State)
		case *workflow.Block:
			x.EntranceDelay = api.NondetDuration(name("entrance"))
			x.ExitDelay = api.NondetDuration(name("exit"))
			x.Concurrency = api.NondetInt(name("conc"))
			x.ToleratedFailures = api.NondetInt(name("tol"))
			st(x.State)
		case *workflow.Sequence:
			st(x.State)
		case *workflow.Action:
			_, inSeq := it.Chain[len(it.Chain)-1].(*workflow.Sequence)
			if inSeq && !symDone {
				// one designated action (the first sequence action) has every definition scalar symbolic
				symDone = true
				x.Timeout = api.NondetDuration(name("timeout"))
				api.Assume(x.Timeout == 0 || x.Timeout >= 5*time.Second) // valid at submission
				x.Retries = api.NondetInt(name("retries"))
				inner := api.NondetInt(name("reqptr"))
				x.Req = kit.Req{N: api.NondetInt(name("req")), Items: []int{api.NondetInt(name("reqitem")), 2}, Ptr: &inner}
				api.Assume(x.Req.(kit.Req).N >= 0)
				st(x.State)
			} else {
				x.Timeout = 7 * time.Second
				x.Retries = 1
				x.Req = kit.Req{N: 3}
				stc(x.State)
			}
			if ran && !attemptsDone {
				// one designated action (the first sequence action) carries 0..k attempts of every kind
				if _, inSeq := it.Chain[len(it.Chain)-1].(*workflow.Sequence); inSeq {
					attemptsDone = true
					na := api.Choose("attempts", api.Bound("max_attempts", 1, 2)+1)
					for i := 0; i < na; i++ {
						at := &workflow.Attempt{Start: api.NondetTime(name("astart")), End: api.NondetTime(name("aend"))}
						switch api.Choose(name("aout"), 3) {
						case 0:
							at.Resp = kit.Resp{N: api.NondetInt(name("resp")), Items: []int{api.NondetInt(name("respitem"))}}
						case 1:
							at.Err = &plugins.Error{Code: plugins.ErrCode(api.NondetUint8(name("code"))), Message: "e", Permanent: api.NondetBool(name("perm"))}
						case 2:
							at.Err = &plugins.Error{Message: "outer", Wrapped: &plugins.Error{Message: "inner", Permanent: api.NondetBool(name("iperm"))}}
						}
						x.Attempts = append(x.Attempts, at)
					}
				}
			}
		}
	}
	return p
}

func vhSameErr(a, b *plugins.Error) bool {
	for {
		if a == nil || b == nil {
			return a == nil && b == nil
		}
		if a == b {
			return false // must be a copy
		}
		if !api.IteBool(a.Code == b.Code, a.Permanent == b.Permanent, false) || a.Message != b.Message {
			return false
		}
		a, b = a.Wrapped, b.Wrapped
	}
}

func vhSameState(a, b *workflow.State, keep bool, what string) {
	if !keep {
		api.Assert(b == nil, "C18: default clone strips State ("+what+")")
		return
	}
	if a == nil {
		api.Assert(b == nil, "C18: keep-state clone of an object without state has none ("+what+")")
		return
	}
	api.Assert(b != nil && b != a, "C18: keep-state clone has its own State object ("+what+")")
	if b != nil {
		api.Assert(api.IteBool(a.Status == b.Status, api.IteBool(a.Start.Equal(b.Start), a.End.Equal(b.End), false), false), "C18: keep-state clone preserves status and times ("+what+")")
	}
}

func vhSameAction(a, b *workflow.Action, keep bool) {
	api.Assert(b != nil, "C18: every action is cloned")
	if b == nil {
		return
	}
	api.Assert(a.Name == b.Name && a.Descr == b.Descr && a.Plugin == b.Plugin, "C18: action name, description and plugin preserved")
	api.Assert(api.IteBool(a.Timeout == b.Timeout, a.Retries == b.Retries, false), "C18: action timeout and retries preserved")
	ra, oka := a.Req.(kit.Req)
	rb, okb := b.Req.(kit.Req)
	api.Assert(oka && okb && ra.N == rb.N && len(ra.Items) == len(rb.Items) && (ra.Ptr == nil) == (rb.Ptr == nil), "C18: action request preserved")
	if oka && okb && len(ra.Items) == len(rb.Items) && len(ra.Items) > 0 {
		api.Assert(ra.Items[0] == rb.Items[0] && (ra.Ptr == nil || rb.Ptr == nil || *ra.Ptr == *rb.Ptr), "C18: nested request data preserved")
	}
	vhSameState(a.State, b.State, keep, "action")
	if keep {
		api.Assert(a.ID == b.ID, "C18: keep-state clone preserves ids (action)")
		api.Assert(len(a.Attempts) == len(b.Attempts), "C18: keep-state clone preserves the attempts")
		if len(a.Attempts) == len(b.Attempts) {
			for i := range a.Attempts {
				x, y := a.Attempts[i], b.Attempts[i]
				api.Assert(x != y, "C18: attempts are copies")
				api.Assert(api.IteBool(x.Start.Equal(y.Start), x.End.Equal(y.End), false), "C18: attempt times preserved")
				api.Assert(vhSameErr(x.Err, y.Err), "C18: attempt error preserved as a copy")
				rx, okx := x.Resp.(kit.Resp)
				ry, oky := y.Resp.(kit.Resp)
				api.Assert((x.Resp == nil) == (y.Resp == nil) && okx == oky && (!okx || rx.N == ry.N), "C18: attempt response preserved")
			}
			if len(a.Attempts) > 0 {
				api.Reach("attempts compared")
			}
		}
	} else {
		api.Assert(b.ID == uuid.Nil && b.Attempts == nil, "C18: default clone strips id and attempts (action)")
	}
}

func vhSameChecks(a, b *workflow.Checks, keep bool) {
	if a == nil {
		api.Assert(b == nil, "C18: absent check group stays absent")
		return
	}
	api.Assert(b != nil, "C18: present check group is cloned")
	if b == nil {
		return
	}
	api.Assert(a.Delay == b.Delay, "C18: checks delay preserved")
	api.Assert(len(a.Actions) == len(b.Actions), "C18: number and order of check actions preserved")
	if len(a.Actions) == len(b.Actions) {
		for i := range a.Actions {
			vhSameAction(a.Actions[i], b.Actions[i], keep)
		}
	}
	vhSameState(a.State, b.State, keep, "checks")
	if keep {
		api.Assert(a.ID == b.ID, "C18: keep-state clone preserves ids (checks)")
	} else {
		api.Assert(b.ID == uuid.Nil, "C18: default clone strips id (checks)")
	}
}

func vhSameSequence(a, b *workflow.Sequence, keep bool) {
	api.Assert(b != nil, "C18: every sequence is cloned")
	if b == nil {
		return
	}
	api.Assert(a.Name == b.Name && a.Descr == b.Descr, "C18: sequence name and description preserved")
	api.Assert(len(a.Actions) == len(b.Actions), "C18: number and order of actions preserved")
	if len(a.Actions) == len(b.Actions) {
		for i := range a.Actions {
			vhSameAction(a.Actions[i], b.Actions[i], keep)
		}
	}
	vhSameState(a.State, b.State, keep, "sequence")
	if keep {
		api.Assert(a.ID == b.ID, "C18: keep-state clone preserves ids (sequence)")
	} else {
		api.Assert(b.ID == uuid.Nil, "C18: default clone strips id (sequence)")
	}
}

func vhSameBlock(a, b *workflow.Block, keep bool) {
	api.Assert(b != nil, "C18: every block is cloned")
	if b == nil {
		return
	}
	api.Assert(a.Name == b.Name && a.Descr == b.Descr, "C18: block name and description preserved")
	api.Assert(api.IteBool(a.EntranceDelay == b.EntranceDelay, a.ExitDelay == b.ExitDelay, false), "C18: block delays preserved")
	api.Assert(api.IteBool(a.Concurrency == b.Concurrency, a.ToleratedFailures == b.ToleratedFailures, false), "C18: block concurrency and tolerance preserved")
	ga, gb := shape.BlockGroups(a), shape.BlockGroups(b)
	for i := range ga {
		vhSameChecks(ga[i], gb[i], keep)
	}
	api.Assert(len(a.Sequences) == len(b.Sequences), "C18: number and order of sequences preserved")
	if len(a.Sequences) == len(b.Sequences) {
		for i := range a.Sequences {
			vhSameSequence(a.Sequences[i], b.Sequences[i], keep)
		}
	}
	vhSameState(a.State, b.State, keep, "block")
	if keep {
		api.Assert(a.ID == b.ID, "C18: keep-state clone preserves ids (block)")
	} else {
		api.Assert(b.ID == uuid.Nil, "C18: default clone strips id (block)")
	}
}

func vhOptions() (bool, []Option) {
	keep := api.NondetBool("keep_state")
	secrets := api.NondetBool("keep_secrets")
	var opts []Option
	if keep {
		opts = append(opts, WithKeepState())
	}
	if secrets {
		opts = append(opts, WithKeepSecrets())
	}
	return keep, opts
}

// VerifC18Plan: clone.Plan on fresh and on already-run plans, all option combinations.
func VerifC18Plan() {
	ran := api.Choose("original_has_run", 2) == 1
	p := vhOriginal(ran)
	keep, opts := vhOptions()
	c := Plan(context.Background(), p, opts...)
	api.Assert(c != nil && c != p, "C18: Plan returns a new plan")
	if c == nil {
		return
	}
	api.NoAlias(p, c, "C18: the clone shares no mutable memory with the original")
	api.Assert(p.Name == c.Name && p.Descr == c.Descr && p.GroupID == c.GroupID, "C18: plan name, description and group preserved")
	api.Assert(len(p.Meta) == len(c.Meta), "C18: meta preserved")
	if len(p.Meta) == len(c.Meta) {
		for i := range p.Meta {
			api.Assert(p.Meta[i] == c.Meta[i], "C18: meta preserved")
		}
	}
	ga, gb := shape.PlanGroups(p), shape.PlanGroups(c)
	for i := range ga {
		vhSameChecks(ga[i], gb[i], keep)
	}
	api.Assert(len(p.Blocks) == len(c.Blocks), "C18: number and order of blocks preserved")
	if len(p.Blocks) == len(c.Blocks) {
		for i := range p.Blocks {
			vhSameBlock(p.Blocks[i], c.Blocks[i], keep)
		}
	}
	vhSameState(p.State, c.State, keep, "plan")
	if keep {
		api.Assert(p.ID == c.ID && api.IteBool(p.Reason == c.Reason, p.SubmitTime.Equal(c.SubmitTime), false), "C18: keep-state clone preserves id, reason and submit time (plan)")
		api.Reach("keep-state clone compared")
		return
	}
	api.Assert(c.ID == uuid.Nil && c.Reason == workflow.FRUnknown && c.SubmitTime.IsZero(), "C18: default clone strips id, reason and submit time (plan)")
	// resubmittable: the real Submit accepts the clone of any plan, even one that has already run
	mon := kit.NewMon(kit.ModeOkFail)
	ws, err := coercion.New(context.Background(), kit.NewRegistry(mon), kit.NewVault())
	api.Assert(err == nil, "New succeeds")
	_, serr := ws.Submit(context.Background(), c)
	api.Assert(serr == nil, "C18: the default clone of any plan is accepted by Submit")
	if ran {
		api.Reach("clone of a plan that has run resubmitted")
	} else {
		api.Reach("clone of a fresh plan resubmitted")
	}
}

// VerifC18Parts: Block, Sequence, Checks and Action cloned on their own.
func VerifC18Parts() {
	ran := api.Choose("original_has_run", 2) == 1
	p := vhOriginal(ran)
	keep, opts := vhOptions()
	ctx := context.Background()
	b := p.Blocks[0]
	switch api.Choose("part", 4) {
	case 0:
		c := Block(ctx, b, opts...)
		api.NoAlias(b, c, "C18: the clone shares no mutable memory with the original")
		vhSameBlock(b, c, keep)
		api.Reach("block cloned")
	case 1:
		s := b.Sequences[0]
		c := Sequence(ctx, s, opts...)
		api.NoAlias(s, c, "C18: the clone shares no mutable memory with the original")
		vhSameSequence(s, c, keep)
		api.Reach("sequence cloned")
	case 2:
		g := p.PreChecks
		if g == nil {
			api.Assume(false)
		}
		c := Checks(ctx, g, opts...)
		api.NoAlias(g, c, "C18: the clone shares no mutable memory with the original")
		vhSameChecks(g, c, keep)
		api.Reach("checks cloned")
	case 3:
		a := b.Sequences[0].Actions[0]
		c := Action(ctx, a, opts...)
		api.NoAlias(a, c, "C18: the clone shares no mutable memory with the original")
		vhSameAction(a, c, keep)
		api.Reach("action cloned")
	}
}
