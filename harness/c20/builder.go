//verif:package workflow/builder
//verif:uses New, (*BuildPlan).{AddChecks,AddBlock,AddSequence,AddAction,Up,Plan,Err,Reset} (all exported)

package builder

import (
	"fmt"

	"github.com/element-of-surprise/coercion/internal/zzverif/api"
	"github.com/element-of-surprise/coercion/workflow"
)

// vhRef is the reference interpreter of builder call sequences, written from the package documentation
// and the statement of C20: the first misuse is stored and sticky until Reset; otherwise the object is
// attached where the cursor is and the cursor moves as documented.
type vhRef struct {
	plan    *workflow.Plan
	cursor  []any // objects of the reference plan, root first
	emitted bool
	errSet  bool
	first   error // the error value the real builder reported when the reference says the first misuse happened
	unknown bool  // state no longer specified (after a failed Reset): only "no panic" is checked
	n       int
}

func vhNewRef() *vhRef {
	p := &workflow.Plan{Name: "plan", Descr: "descr"}
	return &vhRef{plan: p, cursor: []any{p}}
}

func (r *vhRef) cur() any { return r.cursor[len(r.cursor)-1] }

func (r *vhRef) name() string { r.n++; return fmt.Sprintf("o%d", r.n) }

// vhGroup returns the address of the group slot selected by cType, or nil for an unknown type.
func vhGroup(o any, cType ChecksType) **workflow.Checks {
	switch t := o.(type) {
	case *workflow.Plan:
		switch cType {
		case BypassChecks:
			return &t.BypassChecks
		case PreChecks:
			return &t.PreChecks
		case ContChecks:
			return &t.ContChecks
		case PostChecks:
			return &t.PostChecks
		case DeferredChecks:
			return &t.DeferredChecks
		}
	case *workflow.Block:
		switch cType {
		case BypassChecks:
			return &t.BypassChecks
		case PreChecks:
			return &t.PreChecks
		case ContChecks:
			return &t.ContChecks
		case PostChecks:
			return &t.PostChecks
		case DeferredChecks:
			return &t.DeferredChecks
		}
	}
	return nil
}

func vhSameActions(a, b []*workflow.Action) bool {
	if len(a) != len(b) {
		return false
	}
	for i := range a {
		if a[i] != b[i] { // action objects are handed to both builder and reference
			return false
		}
	}
	return true
}

func vhSameChecks(a, b *workflow.Checks) bool {
	if a == nil || b == nil {
		return a == nil && b == nil
	}
	return a.Delay == b.Delay && vhSameActions(a.Actions, b.Actions)
}

func vhSamePlan(a, b *workflow.Plan) bool {
	if a.Name != b.Name || a.Descr != b.Descr || a.GroupID != b.GroupID {
		return false
	}
	if !vhSameChecks(a.BypassChecks, b.BypassChecks) || !vhSameChecks(a.PreChecks, b.PreChecks) || !vhSameChecks(a.ContChecks, b.ContChecks) ||
		!vhSameChecks(a.PostChecks, b.PostChecks) || !vhSameChecks(a.DeferredChecks, b.DeferredChecks) {
		return false
	}
	if len(a.Blocks) != len(b.Blocks) {
		return false
	}
	for i := range a.Blocks {
		x, y := a.Blocks[i], b.Blocks[i]
		if x.Name != y.Name || x.Descr != y.Descr || x.Key != y.Key {
			return false
		}
		if !api.IteBool(x.EntranceDelay == y.EntranceDelay, x.ExitDelay == y.ExitDelay, false) {
			return false
		}
		if !api.IteBool(x.Concurrency == y.Concurrency, x.ToleratedFailures == y.ToleratedFailures, false) {
			return false
		}
		if !vhSameChecks(x.BypassChecks, y.BypassChecks) || !vhSameChecks(x.PreChecks, y.PreChecks) || !vhSameChecks(x.ContChecks, y.ContChecks) ||
			!vhSameChecks(x.PostChecks, y.PostChecks) || !vhSameChecks(x.DeferredChecks, y.DeferredChecks) {
			return false
		}
		if len(x.Sequences) != len(y.Sequences) {
			return false
		}
		for j := range x.Sequences {
			s, t := x.Sequences[j], y.Sequences[j]
			if s.Name != t.Name || s.Descr != t.Descr || !vhSameActions(s.Actions, t.Actions) {
				return false
			}
		}
	}
	return true
}

const (
	vhAddChecks = iota
	vhAddChecksNil
	vhAddChecksNilAction
	vhAddBlock
	vhAddBlockBad
	vhAddSequence
	vhAddSequenceNil
	vhAddSequenceBad
	vhAddAction
	vhAddActionNil
	vhAddActionBad
	vhUp
	vhPlan
	vhResetOK
	vhResetBad
	vhNOps
)

var vhOpNames = [...]string{"AddChecks", "AddChecks(nil)", "AddChecks(nil action)", "AddBlock", "AddBlock(blank)", "AddSequence", "AddSequence(nil)",
	"AddSequence(blank)", "AddAction", "AddAction(nil)", "AddAction(blank)", "Up", "Plan", "Reset", "Reset(blank)"}

// misuse records that the reference considers this call a misuse: if no error is stored yet, the builder must now report one.
func (r *vhRef) misuse(b *BuildPlan) {
	if r.errSet {
		return
	}
	r.errSet = true
	r.first = b.Err()
	api.Assert(b.Err() != nil, "misuse is reported as an error")
}

// vhStep applies one builder call (picked by a case split) to the real builder and to the reference, then compares.
func vhStep(b *BuildPlan, r *vhRef, hist *string) {
	op := api.Choose("op", vhNOps)
	*hist += vhOpNames[op] + ";"
	api.Fact("i:history", *hist)
	api.Fact("i:last_op", vhOpNames[op])
	blocked := r.emitted || r.errSet // the call must not change anything
	switch op {
	case vhAddChecks:
		cType := ChecksType(api.NondetInt("ctype"))
		a := &workflow.Action{Name: r.name(), Descr: "d", Plugin: "p"}
		cb := &workflow.Checks{Delay: api.NondetDuration("delay"), Actions: []*workflow.Action{a}}
		cr := &workflow.Checks{Delay: cb.Delay, Actions: []*workflow.Action{a}}
		b.AddChecks(cType, cb)
		if r.unknown {
			break
		}
		if r.emitted {
			r.misuse(b)
		} else if !blocked {
			slot := vhGroup(r.cur(), cType)
			if slot == nil || *slot != nil {
				r.misuse(b) // wrong level, unknown type or duplicate group
			} else {
				*slot = cr
				r.cursor = append(r.cursor, cr)
			}
		}
	case vhAddChecksNil:
		b.AddChecks(PreChecks, nil)
		if r.unknown {
			break
		}
		if r.emitted || !blocked {
			r.misuse(b)
		}
	case vhAddChecksNilAction:
		b.AddChecks(PreChecks, &workflow.Checks{Actions: []*workflow.Action{nil}})
		if r.unknown {
			break
		}
		if r.emitted || !blocked {
			r.misuse(b)
		}
	case vhAddBlock:
		args := BlockArgs{Name: r.name(), Descr: "d", EntranceDelay: api.NondetDuration("entrance"), ExitDelay: api.NondetDuration("exit"),
			Concurrency: api.NondetInt("concurrency"), ToleratedFailures: api.NondetInt("tolerated")}
		b.AddBlock(args)
		if r.unknown {
			break
		}
		if r.emitted {
			r.misuse(b)
		} else if !blocked {
			if p, ok := r.cur().(*workflow.Plan); ok {
				blk := &workflow.Block{Name: args.Name, Descr: args.Descr, EntranceDelay: args.EntranceDelay, ExitDelay: args.ExitDelay,
					Concurrency: args.Concurrency, ToleratedFailures: args.ToleratedFailures}
				p.Blocks = append(p.Blocks, blk)
				r.cursor = append(r.cursor, blk)
			} else {
				r.misuse(b)
			}
		}
	case vhAddBlockBad:
		if api.Choose("blank", 2) == 0 {
			b.AddBlock(BlockArgs{Name: "", Descr: "d"})
		} else {
			b.AddBlock(BlockArgs{Name: "n", Descr: ""})
		}
		if r.unknown {
			break
		}
		if r.emitted || !blocked {
			r.misuse(b)
		}
	case vhAddSequence:
		n := r.name()
		b.AddSequence(&workflow.Sequence{Name: n, Descr: "d"})
		if r.unknown {
			break
		}
		if r.emitted {
			r.misuse(b)
		} else if !blocked {
			if blk, ok := r.cur().(*workflow.Block); ok {
				s := &workflow.Sequence{Name: n, Descr: "d"}
				blk.Sequences = append(blk.Sequences, s)
				r.cursor = append(r.cursor, s)
			} else {
				r.misuse(b)
			}
		}
	case vhAddSequenceNil:
		b.AddSequence(nil)
		if r.unknown {
			break
		}
		if r.emitted || !blocked {
			r.misuse(b)
		}
	case vhAddSequenceBad:
		b.AddSequence(&workflow.Sequence{Name: "", Descr: "d"})
		if r.unknown {
			break
		}
		if r.emitted || !blocked {
			r.misuse(b)
		}
	case vhAddAction:
		a := &workflow.Action{Name: r.name(), Descr: "d", Plugin: "p"}
		b.AddAction(a)
		if r.unknown {
			break
		}
		if r.emitted {
			r.misuse(b)
		} else if !blocked {
			switch t := r.cur().(type) {
			case *workflow.Sequence:
				t.Actions = append(t.Actions, a)
			case *workflow.Checks:
				t.Actions = append(t.Actions, a)
			default:
				r.misuse(b)
			}
		}
	case vhAddActionNil:
		b.AddAction(nil)
		if r.unknown {
			break
		}
		if r.emitted || !blocked {
			r.misuse(b)
		}
	case vhAddActionBad:
		b.AddAction(&workflow.Action{Name: "n", Descr: "d", Plugin: ""})
		if r.unknown {
			break
		}
		if r.emitted || !blocked {
			r.misuse(b)
		}
	case vhUp:
		b.Up()
		if r.unknown {
			break
		}
		if r.emitted {
			r.misuse(b)
		} else if !blocked {
			if len(r.cursor) < 2 {
				r.misuse(b)
			} else {
				r.cursor = r.cursor[:len(r.cursor)-1]
			}
		}
	case vhPlan:
		p, perr := b.Plan()
		if r.unknown {
			break
		}
		switch {
		case r.errSet:
			api.Assert(p == nil && perr != nil, "Plan() fails after a misuse")
			api.Assert(perr == r.first, "Plan() returns the first error")
			api.Reach("Plan() after misuse")
		case r.emitted:
			api.Assert(p == nil && perr != nil, "Plan() twice is an error")
			r.unknown = true // whether this error is stored is not specified
		default:
			api.Assert(perr == nil && p != nil, "Plan() succeeds on a well-formed history")
			if perr == nil && p != nil {
				api.Assert(vhSamePlan(p, r.plan), "emitted plan equals the directly constructed one")
				api.Reach("plan emitted and compared")
				if len(p.Blocks) > 0 {
					api.Reach("emitted plan with a block")
				}
			}
			r.emitted = true
		}
	case vhResetOK:
		rerr := b.Reset("plan", "descr")
		api.Assert(rerr == nil, "Reset with valid arguments succeeds")
		nr := vhNewRef()
		nr.n = r.n
		*r = *nr
	case vhResetBad:
		rerr := b.Reset(" ", "descr")
		api.Assert(rerr != nil, "Reset with a blank name fails")
		r.unknown = true // state after a failed Reset is unspecified; later calls must still not panic
	}
	if !r.unknown {
		api.Assert((b.Err() != nil) == r.errSet, "Err() is set exactly when a misuse happened")
		if r.errSet {
			api.Assert(b.Err() == r.first, "first error is sticky")
		}
	}
}

// vhFinish ends a history with Plan() and compares the emitted plan with the reference.
func vhFinish(b *BuildPlan, r *vhRef) {
	if r.unknown || r.emitted {
		return
	}
	p, perr := b.Plan()
	if r.errSet {
		api.Assert(p == nil && perr == r.first, "Plan() returns the first error")
		return
	}
	api.Assert(perr == nil && p != nil, "Plan() succeeds on a well-formed history")
	if perr == nil && p != nil {
		api.Assert(vhSamePlan(p, r.plan), "emitted plan equals the directly constructed one")
		api.Reach("plan emitted and compared")
		if len(p.Blocks) > 0 {
			api.Reach("emitted plan with a block")
		}
	}
}

// VerifC20History runs every call sequence of bounded length against the real builder and the reference.
func VerifC20History() {
	L := api.Bound("history_len", 3, 4)
	b, err := New("plan", "descr")
	api.Assert(err == nil && b != nil, "New with valid arguments succeeds")
	r := vhNewRef()
	hist := ""
	for i := 0; i < L; i++ {
		vhStep(b, r, &hist)
	}
	vhFinish(b, r)
}

// VerifC20Step starts from an arbitrary reachable builder state (cursor at every level, with or without a stored
// error, emitted or not), constructed directly, and checks the step relation of one call followed by Plan().
func VerifC20Step() {
	mk := func() (*workflow.Plan, []any) {
		p := &workflow.Plan{Name: "plan", Descr: "descr"}
		return p, []any{p}
	}
	bp, bchain := mk()
	rp, rchain := mk()
	lvl := api.Choose("cursor", 5)
	api.Fact("cursor", fmt.Sprint(lvl))
	addBlock := func() {
		bb := &workflow.Block{Name: "b0", Descr: "d"}
		rb := &workflow.Block{Name: "b0", Descr: "d"}
		bp.Blocks = append(bp.Blocks, bb)
		rp.Blocks = append(rp.Blocks, rb)
		bchain = append(bchain, bb)
		rchain = append(rchain, rb)
	}
	switch lvl {
	case 1: // Plan, Checks
		a := &workflow.Action{Name: "ca", Descr: "d", Plugin: "p"}
		bc := &workflow.Checks{Actions: []*workflow.Action{a}}
		rc := &workflow.Checks{Actions: []*workflow.Action{a}}
		// the group the cursor sits in is any of the five
		ct := []ChecksType{PreChecks, ContChecks, PostChecks, BypassChecks, DeferredChecks}[api.Choose("attached_group", 5)]
		*vhGroup(bp, ct), *vhGroup(rp, ct) = bc, rc
		bchain, rchain = append(bchain, bc), append(rchain, rc)
	case 2: // Plan, Block
		addBlock()
	case 3: // Plan, Block, Checks
		addBlock()
		a := &workflow.Action{Name: "ca", Descr: "d", Plugin: "p"}
		bc := &workflow.Checks{Actions: []*workflow.Action{a}}
		rc := &workflow.Checks{Actions: []*workflow.Action{a}}
		ct := []ChecksType{PreChecks, ContChecks, PostChecks, BypassChecks, DeferredChecks}[api.Choose("attached_group", 5)]
		*vhGroup(bp.Blocks[0], ct), *vhGroup(rp.Blocks[0], ct) = bc, rc
		bchain, rchain = append(bchain, bc), append(rchain, rc)
	case 4: // Plan, Block, Sequence
		addBlock()
		bs := &workflow.Sequence{Name: "s0", Descr: "d"}
		rs := &workflow.Sequence{Name: "s0", Descr: "d"}
		bp.Blocks[0].Sequences = append(bp.Blocks[0].Sequences, bs)
		rp.Blocks[0].Sequences = append(rp.Blocks[0].Sequences, rs)
		bchain, rchain = append(bchain, bs), append(rchain, rs)
	}
	b := &BuildPlan{chain: bchain}
	r := &vhRef{plan: rp, cursor: rchain, n: 100}
	if api.Choose("stored_error", 2) == 1 {
		b.Up().Up().Up().Up() // one Up too many from any level: a genuine first misuse
		r.errSet = true
		r.first = b.Err()
		api.Assert(b.Err() != nil, "misuse is reported as an error")
		api.Fact("stored_error", "yes")
	}
	if api.Choose("emitted", 2) == 1 && !r.errSet {
		_, perr := b.Plan()
		api.Assert(perr == nil, "Plan() succeeds on a well-formed history")
		r.emitted = true
		api.Fact("emitted", "yes")
	}
	hist := ""
	vhStep(b, r, &hist)
	vhStep(b, r, &hist)
	vhFinish(b, r)
}
