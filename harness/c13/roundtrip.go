//verif:package workflow/storage/sqlite
//verif:uses New, WithInMemory, (*Vault).{Create,Read,Delete,UpdatePlan,UpdateChecks,UpdateBlock,UpdateSequence,UpdateAction} (all exported)

package sqlite

import (
	"fmt"
	"time"

	"github.com/element-of-surprise/coercion/internal/zzverif/api"
	"github.com/element-of-surprise/coercion/internal/zzverif/kit"
	"github.com/element-of-surprise/coercion/internal/zzverif/shape"
	"github.com/element-of-surprise/coercion/plugins"
	"github.com/element-of-surprise/coercion/workflow"
	"github.com/element-of-surprise/coercion/workflow/utils/walk"
	"github.com/google/uuid"
	"github.com/gostdlib/base/context"
)

// vhT: an instant of the real clock range (after the epoch, before 2116) or the zero time.
func vhT(name string) time.Time {
	t := api.NondetTime(name)
	ns := t.UnixNano()
	api.Assume(api.IteBool(t.IsZero(), true, api.IteBool(ns >= 1, ns < int64(1)<<62, false))) // no forking
	return t
}

type vhNamer struct {
	n        int
	seen     map[string]bool
	concrete bool // no symbolic content at all
}

func (v *vhNamer) name(s string) string { v.n++; return fmt.Sprintf("%s%d", s, v.n) }

// state: statuses are symbolic on the first object of each kind; times are symbolic only on the plan and the
// designated action (the reading code forks three ways on every stored time); every other object gets fixed,
// pairwise distinct Start/End values, which still expose swapped or dropped columns.
func (v *vhNamer) state(s *workflow.State, kind string) {
	if v.seen == nil {
		v.seen = map[string]bool{}
	}
	first := !v.seen[kind]
	v.seen[kind] = true
	s.Status = workflow.Running
	if first && !v.concrete {
		s.Status = workflow.Status(api.NondetInt(v.name("status")))
	}
	v.n += 2
	s.Start = time.Unix(0, int64(1000+v.n))
	s.End = time.Unix(0, int64(1001+v.n))
	if first && !v.concrete && kind == "plan" {
		s.Start = vhT(v.name("start")) // plan: symbolic start, zero end
		s.End = time.Time{}
	}
	if first && !v.concrete && kind == "action" {
		s.End = vhT(v.name("end")) // designated action: symbolic end
	}
}

// fresh gives s new symbolic content unconditionally (updates).
func (v *vhNamer) fresh(s *workflow.State) {
	s.Status = workflow.Status(api.NondetInt(v.name("status")))
	s.Start = vhT(v.name("start"))
	s.End = vhT(v.name("end"))
}

func (v *vhNamer) attempts(maxN int) []*workflow.Attempt {
	var out []*workflow.Attempt
	na := api.Choose("attempts", maxN+1)
	for i := 0; i < na; i++ {
		at := &workflow.Attempt{Start: vhT(v.name("astart")), End: vhT(v.name("aend"))}
		switch api.Choose(v.name("aout"), 3) {
		case 0:
			at.Resp = kit.Resp{N: api.NondetInt(v.name("resp"))}
		case 1:
			at.Err = &plugins.Error{Code: plugins.ErrCode(api.NondetUint8(v.name("code"))), Message: "e", Permanent: api.NondetBool(v.name("perm"))}
		case 2:
			at.Err = &plugins.Error{Message: "outer", Wrapped: &plugins.Error{Message: "inner", Permanent: api.NondetBool(v.name("iperm"))}}
		}
		out = append(out, at)
	}
	return out
}

// vhStored builds a plan as Submit hands it to Create (ids and states present), with every scalar symbolic
// on the plan, the blocks, the check groups, the sequences and one designated action.
func vhStored(tag string, small bool) *workflow.Plan { return vhStoredX(tag, small, false) }

func vhStoredX(tag string, small, concrete bool) *workflow.Plan {
	cfg := shape.Cfg{MinBlocks: 1, MaxBlocks: api.Bound("blocks", 2, 2), MinSeqs: 1, MaxSeqs: api.Bound("seqs", 2, 2), MinActions: 1, MaxActions: api.Bound("actions", 2, 2),
		PlanGroups: api.Bound("plan_groups_family", shape.GroupsNoneOrAll, shape.GroupsFamily), BlockGroups: api.Bound("block_groups_family", shape.GroupsNoneOrAll, shape.GroupsNoneOrAll),
		CheckActions: 1, SimpleTailBlocks: true, SimpleTailSeqs: true, WithState: true, Req: kit.Req{N: 3}}
	if small {
		cfg = shape.Cfg{MinBlocks: 1, MaxBlocks: 1, MinSeqs: 1, MaxSeqs: 1, MinActions: 1, MaxActions: 1, PlanGroups: shape.GroupsNoneOrAll, CheckActions: 1, WithState: true, Req: kit.Req{N: 3}}
	}
	p := shape.Plan(cfg)
	v := &vhNamer{concrete: concrete}
	p.Name, p.Descr = tag+"plan", tag+"descr"
	mg := 0
	if !concrete {
		mg = api.Choose(tag+"meta_and_group", 3)
	}
	switch mg {
	case 1:
		p.Meta = []byte{}
		p.GroupID = workflow.NewV7()
	case 2:
		p.Meta = []byte{api.NondetUint8(tag + "meta0"), 7}
	}
	p.SubmitTime = time.Unix(0, 777)
	if !concrete {
		p.SubmitTime = vhT(tag + "submit")
		p.Reason = workflow.FailureReason(api.NondetInt(tag + "reason"))
	}
	symDone := false
	noReqDone := false
	for it := range walk.Plan(p) {
		switch x := it.Value.(type) {
		case *workflow.Plan:
			v.state(x.State, "plan")
		case *workflow.Checks:
			if !concrete {
				x.Delay = api.NondetDuration(v.name("delay"))
			}
			x.Key = workflow.NewV7()
			v.state(x.State, "checks")
		case *workflow.Block:
			if !concrete {
				x.EntranceDelay = api.NondetDuration(v.name("entrance"))
				x.ExitDelay = api.NondetDuration(v.name("exit"))
				x.Concurrency = api.NondetInt(v.name("conc"))
				x.ToleratedFailures = api.NondetInt(v.name("tol"))
			}
			v.state(x.State, "block")
		case *workflow.Sequence:
			if !concrete && !v.seen["sequence"] && api.Choose("seqkey", 2) == 1 {
				x.Key = workflow.NewV7()
			}
			v.state(x.State, "sequence")
		case *workflow.Action:
			_, inSeq := it.Chain[len(it.Chain)-1].(*workflow.Sequence)
			x.Timeout = 7 * time.Second
			if !inSeq && !noReqDone && !concrete {
				// the first check action uses a plugin that takes no request object, and has already been attempted once
				noReqDone = true
				x.Plugin = "noreq"
				x.Req = nil
				x.Attempts = []*workflow.Attempt{{Start: time.Unix(0, 5000), End: time.Unix(0, 6000), Resp: kit.Resp{N: api.NondetInt(v.name("noreq_resp"))}}}
			}
			if inSeq && !symDone && !concrete {
				symDone = true
				x.Timeout = api.NondetDuration(v.name("timeout"))
				x.Retries = api.NondetInt(v.name("retries"))
				x.Req = kit.Req{N: api.NondetInt(v.name("req"))}
				x.Attempts = v.attempts(api.Bound("max_attempts", 1, 2))
				v.state(x.State, "action")
			}
		}
	}
	return p
}

func vhSameT(a, b time.Time) bool { return a.Equal(b) }

func vhEqState(a, b *workflow.State, what string) {
	api.Assert(b != nil, "C13: state present ("+what+")")
	if b == nil {
		return
	}
	api.Assert(a.Status == b.Status, "C13: status round-trips ("+what+")")
	api.Assert(api.IteBool(vhSameT(a.Start, b.Start), vhSameT(a.End, b.End), false), "C13: nanosecond timestamps round-trip ("+what+")")
}

func vhEqAction(a, b *workflow.Action) {
	api.Assert(a.ID == b.ID && a.Key == b.Key && a.Name == b.Name && a.Descr == b.Descr && a.Plugin == b.Plugin, "C13: action identity and definition strings round-trip")
	api.Assert(api.IteBool(a.Timeout == b.Timeout, a.Retries == b.Retries, false), "C13: action timeout and retries round-trip")
	if a.Req == nil {
		api.Assert(b.Req == nil, "C13: an action without a request object reads back without one")
	} else {
		ra, oka := a.Req.(kit.Req)
		rb, okb := b.Req.(kit.Req)
		api.Assert(oka && okb && ra.N == rb.N, "C13: typed request round-trips")
	}
	vhEqState(a.State, b.State, "action")
	api.Assert(len(a.Attempts) == len(b.Attempts), "C13: all attempts round-trip")
	if len(a.Attempts) == len(b.Attempts) {
		for i := range a.Attempts {
			x, y := a.Attempts[i], b.Attempts[i]
			api.Assert(api.IteBool(vhSameT(x.Start, y.Start), vhSameT(x.End, y.End), false), "C13: attempt times round-trip")
			rx, okx := x.Resp.(kit.Resp)
			ry, oky := y.Resp.(kit.Resp)
			api.Assert((x.Resp == nil) == (y.Resp == nil) && okx == oky && (!okx || rx.N == ry.N), "C13: typed response round-trips")
			ex, ey := x.Err, y.Err
			for ex != nil || ey != nil {
				if ex == nil || ey == nil {
					api.Assert(false, "C13: attempt error chain round-trips")
					break
				}
				api.Assert(ex.Message == ey.Message && api.IteBool(ex.Code == ey.Code, ex.Permanent == ey.Permanent, false), "C13: attempt error round-trips")
				ex, ey = ex.Wrapped, ey.Wrapped
			}
		}
		if len(a.Attempts) > 0 {
			api.Reach("attempts compared")
		}
	}
}

func vhEqChecks(a, b *workflow.Checks, what string) {
	if a == nil {
		api.Assert(b == nil, "C13: absent check group stays absent ("+what+")")
		return
	}
	api.Assert(b != nil, "C13: present check group is read back ("+what+")")
	if b == nil {
		return
	}
	api.Assert(a.ID == b.ID && a.Key == b.Key && a.Delay == b.Delay, "C13: checks id, key and delay round-trip")
	vhEqState(a.State, b.State, "checks")
	api.Assert(len(a.Actions) == len(b.Actions), "C13: check actions round-trip in order")
	if len(a.Actions) == len(b.Actions) {
		for i := range a.Actions {
			vhEqAction(a.Actions[i], b.Actions[i])
		}
	}
}

func vhEqPlan(a, b *workflow.Plan) {
	api.Assert(a.ID == b.ID && a.Name == b.Name && a.Descr == b.Descr && a.GroupID == b.GroupID, "C13: plan identity, name, description and group round-trip")
	api.Assert(len(a.Meta) == len(b.Meta), "C13: meta round-trips")
	if len(a.Meta) == len(b.Meta) {
		for i := range a.Meta {
			api.Assert(a.Meta[i] == b.Meta[i], "C13: meta round-trips")
		}
	}
	api.Assert(vhSameT(a.SubmitTime, b.SubmitTime), "C13: submit time round-trips")
	api.Assert(a.Reason == b.Reason, "C13: failure reason round-trips")
	vhEqState(a.State, b.State, "plan")
	ga, gb := shape.PlanGroups(a), shape.PlanGroups(b)
	for i := range ga {
		vhEqChecks(ga[i], gb[i], "plan."+shape.GroupNames[i])
	}
	api.Assert(len(a.Blocks) == len(b.Blocks), "C13: blocks round-trip in order")
	if len(a.Blocks) != len(b.Blocks) {
		return
	}
	for i := range a.Blocks {
		x, y := a.Blocks[i], b.Blocks[i]
		api.Assert(x.ID == y.ID && x.Key == y.Key && x.Name == y.Name && x.Descr == y.Descr, "C13: block identity and strings round-trip (declared order)")
		api.Assert(api.IteBool(x.EntranceDelay == y.EntranceDelay, x.ExitDelay == y.ExitDelay, false), "C13: block delays round-trip")
		api.Assert(api.IteBool(x.Concurrency == y.Concurrency, x.ToleratedFailures == y.ToleratedFailures, false), "C13: block concurrency and tolerance round-trip")
		vhEqState(x.State, y.State, "block")
		gx, gy := shape.BlockGroups(x), shape.BlockGroups(y)
		for k := range gx {
			vhEqChecks(gx[k], gy[k], "block."+shape.GroupNames[k])
		}
		api.Assert(len(x.Sequences) == len(y.Sequences), "C13: sequences round-trip in order")
		if len(x.Sequences) != len(y.Sequences) {
			continue
		}
		for j := range x.Sequences {
			s, t := x.Sequences[j], y.Sequences[j]
			api.Assert(s.ID == t.ID && s.Key == t.Key && s.Name == t.Name && s.Descr == t.Descr, "C13: sequence identity and strings round-trip (declared order)")
			vhEqState(s.State, t.State, "sequence")
			api.Assert(len(s.Actions) == len(t.Actions), "C13: actions round-trip in order")
			if len(s.Actions) == len(t.Actions) {
				for k := range s.Actions {
					vhEqAction(s.Actions[k], t.Actions[k])
				}
			}
		}
	}
}

func vhVault() (*Vault, *kit.Mon) {
	mon := kit.NewMon(kit.ModeOkFail)
	reg := kit.NewRegistry(mon)
	v, err := New(context.Background(), "", reg, WithInMemory())
	api.Assert(err == nil && v != nil, "New (in memory) succeeds")
	return v, mon
}

// VerifC13Create: Read after Create returns the full definition and state for every shape and field value.
func VerifC13Create() {
	v, _ := vhVault()
	ctx := context.Background()
	p := vhStored("", false)
	api.Assert(v.Create(ctx, p) == nil, "Create of a well-formed plan succeeds")
	got, err := v.Read(ctx, p.ID)
	api.Assert(err == nil && got != nil, "Read of a created plan succeeds")
	if err == nil && got != nil {
		vhEqPlan(p, got)
		api.Reach("plan compared after Create")
		if len(p.Blocks) > 1 {
			api.Reach("two blocks compared")
		}
	}
}

// VerifC13Update: after any of the five Update* calls with new symbolic state, Read returns the latest state.
func VerifC13Update() {
	v, _ := vhVault()
	ctx := context.Background()
	p := vhStoredX("", true, true)
	if api.Choose("created_with_attempt", 2) == 1 {
		// the action was already attempted when the plan was stored (a plan cloned with its state, or a recovered one)
		a := p.Blocks[0].Sequences[0].Actions[0]
		a.Attempts = []*workflow.Attempt{{Start: time.Unix(0, 5000), End: time.Unix(0, 6000), Resp: kit.Resp{N: 41}}}
	}
	api.Assert(v.Create(ctx, p) == nil, "Create of a well-formed plan succeeds")
	nm := &vhNamer{n: 1000}
	n := 1 + api.Choose("updates", api.Bound("max_updates", 1, 2))
	for i := 0; i < n; i++ {
		switch api.Choose("update_kind", 6) {
		case 5:
			// the engine resets an action before running it again (continuous checks, recovery): new state, no attempts
			a := p.Blocks[0].Sequences[0].Actions[0]
			if len(a.Attempts) > 0 {
				api.Reach("action reset after an attempt was stored")
			}
			nm.fresh(a.State)
			a.Attempts = nil
			if api.Choose("reset_empty_slice", 2) == 1 {
				a.Attempts = []*workflow.Attempt{}
			}
			api.Assert(v.UpdateAction(ctx, a) == nil, "UpdateAction succeeds")
			api.Reach("action updated")
		case 0:
			nm.fresh(p.State)
			p.Reason = workflow.FailureReason(api.NondetInt(nm.name("reason")))
			api.Assert(v.UpdatePlan(ctx, p) == nil, "UpdatePlan succeeds")
			api.Reach("plan updated")
		case 1:
			if p.PreChecks == nil {
				api.Assume(false)
			}
			nm.fresh(p.PreChecks.State)
			api.Assert(v.UpdateChecks(ctx, p.PreChecks) == nil, "UpdateChecks succeeds")
			api.Reach("checks updated")
		case 2:
			nm.fresh(p.Blocks[0].State)
			api.Assert(v.UpdateBlock(ctx, p.Blocks[0]) == nil, "UpdateBlock succeeds")
			api.Reach("block updated")
		case 3:
			nm.fresh(p.Blocks[0].Sequences[0].State)
			api.Assert(v.UpdateSequence(ctx, p.Blocks[0].Sequences[0]) == nil, "UpdateSequence succeeds")
			api.Reach("sequence updated")
		case 4:
			a := p.Blocks[0].Sequences[0].Actions[0]
			nm.fresh(a.State)
			a.Attempts = append(a.Attempts, &workflow.Attempt{Start: vhT(nm.name("astart")), End: vhT(nm.name("aend")), Resp: kit.Resp{N: api.NondetInt(nm.name("resp"))}})
			api.Assert(v.UpdateAction(ctx, a) == nil, "UpdateAction succeeds")
			api.Reach("action updated")
		}
	}
	got, err := v.Read(ctx, p.ID)
	api.Assert(err == nil && got != nil, "Read of a created plan succeeds")
	if err == nil && got != nil {
		vhEqPlan(p, got)
		api.Reach("plan compared after updates")
	}
}

// VerifC13Unknown: reading an id that was never created, or was deleted, is an error and never an empty plan.
func VerifC13Unknown() {
	v, _ := vhVault()
	ctx := context.Background()
	deleted := api.Choose("deleted", 2) == 1
	id := workflow.NewV7()
	if api.Choose("other_plan_present", 2) == 1 {
		o := vhStoredX("o.", true, true)
		api.Assert(v.Create(ctx, o) == nil, "Create of a well-formed plan succeeds")
	}
	if deleted {
		p := vhStoredX("", true, true)
		id = p.ID
		api.Assert(v.Create(ctx, p) == nil, "Create of a well-formed plan succeeds")
		api.Assert(v.Delete(ctx, id) == nil, "Delete of a stored plan succeeds")
		api.Reach("read after delete")
	} else {
		api.Reach("read of a never created id")
	}
	got, err := v.Read(ctx, id)
	api.Assert(err != nil, "C13: reading an id that was never created or was deleted returns an error")
	api.Assert(got == nil, "C13: reading an unknown id never returns a plan")
	api.Assert(id != uuid.Nil, "ids are set")
}
