//verif:package internal/execute
//verif:uses New, (*Plans).Start, (*Plans).Wait (exported)

package execute

import (
	"time"

	"github.com/element-of-surprise/coercion/internal/zzverif/api"
	"github.com/element-of-surprise/coercion/internal/zzverif/kit"
	"github.com/element-of-surprise/coercion/internal/zzverif/shape"
	"github.com/element-of-surprise/coercion/workflow"
	"github.com/element-of-surprise/coercion/workflow/context"
	"github.com/element-of-surprise/coercion/workflow/utils/walk"
)

// VerifC08Wait: C08's clause "the terminal state of the whole plan is durable before any waiter is released",
// through the real execute.Plans.Start/runPlan/Wait with two waiters, on a plan with any one (or all, or none) of
// the five plan-level check groups. At the instant each Wait returns (no yield in between) the durable image of
// the plan row is terminal, no object of the plan is durably Running, every object the engine finished in memory
// has the same status in the image, and nothing is written afterwards. A waiter that starts waiting only after the
// plan ended is released too (no hang) and sees the same image.
func VerifC08Wait() {
	api.LogicalClock()
	mon := kit.NewMon(kit.ModeOkFail)
	vault := kit.NewVault()
	reg := kit.NewRegistry(mon)
	e, err := New(context.Background(), vault, reg)
	api.Assert(err == nil && e != nil, "New succeeds")
	p := shape.Plan(shape.Cfg{MinBlocks: 1, MaxBlocks: 2, MinSeqs: 1, MaxSeqs: 1, MinActions: 1, MaxActions: 1, PlanGroups: shape.GroupsFamily,
		SimpleTailBlocks: true, WithState: true, Req: kit.Req{}})
	for it := range walk.Plan(p) {
		if a, ok := it.Value.(*workflow.Action); ok {
			a.Timeout = 30 * time.Second
		}
		if b, ok := it.Value.(*workflow.Block); ok {
			b.Concurrency = 1
		}
	}
	p.SubmitTime = vhFresh()
	mon.Track(p)
	api.Assert(vault.Create(context.Background(), p) == nil, "Create succeeds")
	api.Assert(e.Start(context.Background(), p.ID) == nil, "Start of a submitted plan succeeds")

	writesAt := [3]int{}
	atRelease := func(i int) {
		// the instant Wait returned: no yield between Wait's return and the end of this function
		st := vault.Img[p.ID].Status
		api.Assert(st == workflow.Completed || st == workflow.Failed, "C08: the plan's terminal state is durable before a waiter is released")
		for it := range walk.Plan(p) {
			img := vault.Img[vhObjID(it.Value)]
			api.Assert(img.Status != workflow.Running, "C08: no object of the plan is durably Running when a waiter is released")
		}
		writesAt[i] = len(vault.Log)
	}
	done := [2]chan struct{}{make(chan struct{}), make(chan struct{})}
	for i := 0; i < 2; i++ {
		i := i
		api.Spawn(func() {
			e.Wait(context.Background(), p.ID)
			atRelease(i)
			close(done[i])
		})
	}
	<-done[0]
	<-done[1]
	// a late waiter: the plan has ended, Wait must still return and the image is what the first waiters saw
	e.Wait(context.Background(), p.ID)
	atRelease(2)
	api.Quiesce()
	for i := 0; i < 3; i++ {
		api.Assert(writesAt[i] == len(vault.Log), "C08: nothing is written after a waiter was released")
	}
	st := vault.Img[p.ID].Status
	if st == workflow.Completed {
		api.Reach("plan completed")
	}
	if st == workflow.Failed {
		api.Reach("plan failed")
	}
	api.Reach("late waiter released")
}
