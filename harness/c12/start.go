//verif:package internal/execute
//verif:uses New, (*Plans).Start, (*Plans).Wait, WithMaxSubmit (exported)

package execute

import (
	"fmt"
	"time"

	"github.com/element-of-surprise/coercion/internal/zzverif/api"
	"github.com/element-of-surprise/coercion/internal/zzverif/kit"
	"github.com/element-of-surprise/coercion/internal/zzverif/shape"
	"github.com/element-of-surprise/coercion/workflow"
	"github.com/element-of-surprise/coercion/workflow/context"
)

const vhMaxDur12 = time.Duration(1) << 61

// vhFresh: a submit time that is fresh on the clock in use (logical clock symbolically, the real one natively).
func vhFresh() time.Time {
	if api.Symbolic() {
		return time.Unix(0, 1_000_000_000)
	}
	return time.Now()
}

// vhSubmitted builds a plan as Submit stores it (1 block, 1 sequence, 1 action).
func vhSubmitted(i int, submit time.Time) *workflow.Plan {
	p := shape.Plan(shape.Cfg{MinBlocks: 1, MaxBlocks: 1, MinSeqs: 1, MaxSeqs: 1, MinActions: 1, MaxActions: 1, WithState: true, Req: kit.Req{}})
	p.Name = fmt.Sprintf("plan%d", i)
	p.Blocks[0].Name = fmt.Sprintf("p%d.b0", i)
	p.Blocks[0].Concurrency = 1
	p.Blocks[0].Sequences[0].Name = fmt.Sprintf("p%d.s0", i)
	p.Blocks[0].Sequences[0].Actions[0].Name = fmt.Sprintf("p%d.a0", i)
	p.Blocks[0].Sequences[0].Actions[0].Timeout = 30 * time.Second
	p.SubmitTime = submit
	return p
}

// VerifC12Race: two concurrent Start calls for the same submitted plan on one executor.
func VerifC12Race() {
	api.LogicalClock()
	mon := kit.NewMon(kit.ModeOkFail)
	vault := kit.NewVault()
	reg := kit.NewRegistry(mon)
	e, err := New(context.Background(), vault, reg)
	api.Assert(err == nil && e != nil, "New succeeds")
	p := vhSubmitted(0, vhFresh())
	mon.Track(p)
	api.Assert(vault.Create(context.Background(), p) == nil, "Create succeeds")

	var err1, err2 error
	done1, done2 := make(chan struct{}), make(chan struct{})
	api.Spawn(func() { err1 = e.Start(context.Background(), p.ID); close(done1) })
	api.Spawn(func() { err2 = e.Start(context.Background(), p.ID); close(done2) })
	<-done1
	<-done2
	e.Wait(context.Background(), p.ID)
	api.Quiesce()

	started := 0
	if err1 == nil {
		started++
	}
	if err2 == nil {
		started++
	}
	api.Assert(started >= 1, "one of two racing Start calls launches the plan")
	api.Assert(started <= 1, "concurrent Start calls result in exactly one execution (the other is rejected)")
	api.Assert(mon.Calls["p0.a0"] <= 1, "a submitted plan is executed at most once")
	if started == 2 {
		api.Reach("both Start calls accepted")
	}
	st := vault.Img[p.ID].Status
	api.Assert(st == workflow.Completed || st == workflow.Failed, "the started plan reaches a terminal state")
	api.Reach("race explored")
}

// VerifC12Repeat: Start again while running or after the plan finished is rejected without side effects.
func VerifC12Repeat() {
	api.LogicalClock()
	mon := kit.NewMon(kit.ModeOkFail)
	vault := kit.NewVault()
	reg := kit.NewRegistry(mon)
	e, _ := New(context.Background(), vault, reg)
	p := vhSubmitted(0, vhFresh())
	mon.Track(p)
	vault.Create(context.Background(), p)
	api.Assert(e.Start(context.Background(), p.ID) == nil, "first Start of a fresh plan is accepted")
	afterWait := api.Choose("second_start_after_wait", 2) == 1
	if afterWait {
		e.Wait(context.Background(), p.ID)
		api.Quiesce()
	}
	writes := len(vault.Log)
	calls := mon.Calls["p0.a0"]
	err := e.Start(context.Background(), p.ID)
	if afterWait {
		api.Assert(err != nil, "Start of a finished plan is rejected")
		api.Assert(len(vault.Log) == writes && mon.Calls["p0.a0"] == calls, "a rejected Start has no side effects")
		api.Reach("restart after finish rejected")
	}
	e.Wait(context.Background(), p.ID)
	api.Quiesce()
	api.Assert(mon.Calls["p0.a0"] <= 1, "a submitted plan is executed at most once")
	if !afterWait {
		api.Reach("restart while starting explored")
	}
}

// VerifC12Stale: the submission age check, for every SubmitTime, maximum and clock value.
func VerifC12Stale() {
	mon := kit.NewMon(kit.ModeOkFail)
	vault := kit.NewVault()
	reg := kit.NewRegistry(mon)
	maxSubmit := api.NondetDuration("max_submit")
	api.Assume(maxSubmit > 0 && maxSubmit < vhMaxDur12)
	e, err := New(context.Background(), vault, reg, WithMaxSubmit(maxSubmit))
	api.Assert(err == nil, "New succeeds")
	submit := api.ClockTime("submit")
	api.Assume(submit.UnixNano() >= 0 && submit.UnixNano() < int64(1)<<62)
	p := vhSubmitted(0, submit)
	mon.Track(p)
	vault.Create(context.Background(), p)
	n0 := api.ClockReadings()
	serr := e.Start(context.Background(), p.ID)
	now := api.ClockReading(n0) // the reading validateStartState compared with
	stale := submit.Add(maxSubmit).Before(now)
	if stale {
		api.Assert(serr != nil, "a plan whose submission is older than the maximum cannot be started")
		api.Quiesce()
		api.Assert(len(vault.Log) == 0 && len(mon.Log) == 0, "a rejected Start has no side effects")
		api.Reach("stale submission rejected")
	} else {
		api.Assert(serr == nil, "a fresh, well-formed plan can be started")
		api.Reach("fresh submission accepted")
		if submit.Add(maxSubmit).Equal(now) {
			api.Reach("boundary age accepted")
		}
		e.Wait(context.Background(), p.ID)
		api.Quiesce()
	}
}

// VerifC01Cancel: the caller cancels the Context it passed to Start at an arbitrary point of the execution
// ("Cancelling the Context will not Stop execution"): ordering and gating must be unaffected.
func VerifC01Cancel() {
	api.LogicalClock()
	mon := kit.NewMon(kit.ModeOkFail)
	vault := kit.NewVault()
	reg := kit.NewRegistry(mon)
	e, _ := New(context.Background(), vault, reg)
	p := shape.Plan(shape.Cfg{MinBlocks: 2, MaxBlocks: 2, MinSeqs: 1, MaxSeqs: 1, MinActions: 1, MaxActions: 1, WithState: true, Req: kit.Req{}})
	// the second block has pre-checks and post-checks; the plan has deferred checks
	mkc := func(name string) *workflow.Checks {
		return &workflow.Checks{ID: workflow.NewV7(), State: &workflow.State{}, Actions: []*workflow.Action{{ID: workflow.NewV7(), Name: name + ".a0", Descr: "c", Plugin: "check",
			Timeout: 30 * time.Second, Req: kit.Req{}, State: &workflow.State{}}}}
	}
	b1 := p.Blocks[1]
	b1.PreChecks = mkc("b1.pre")
	b1.PostChecks = mkc("b1.post")
	p.DeferredChecks = mkc("plan.deferred")
	for _, b := range p.Blocks {
		b.Concurrency = 1
		for _, s := range b.Sequences {
			for _, a := range s.Actions {
				a.Timeout = 30 * time.Second
			}
		}
	}
	p.SubmitTime = vhFresh()
	mon.Track(p)
	vault.Create(context.Background(), p)

	finished := map[string]bool{}
	okv := map[string]bool{}
	cancelled := false
	cancelledMidRun := false
	mon.OnExit = func(in *kit.Info, c *kit.Call) {
		finished[in.Key] = true
		okv[in.Key] = c.Verdict == kit.VOk
	}
	mon.OnEnter = func(in *kit.Info, c *kit.Call) {
		if cancelled {
			cancelledMidRun = true
		}
		switch in.Key {
		case "b1.s0.a0":
			api.Assert(finished["b0.s0.a0"] && okv["b0.s0.a0"], "C01: blocks execute in declared order, each gated on success")
			api.Assert(finished["b1.pre.a0"] && okv["b1.pre.a0"], "C01: no sequence action before the block's pre-checks passed")
		case "b1.post.a0":
			api.Assert(finished["b1.s0.a0"], "C01: post-checks begin only after every started sequence finished")
		case "b1.pre.a0":
			api.Reach("block pre-check ran")
		}
	}
	ctx, cancel := context.WithCancel(context.Background())
	api.Spawn(func() { api.Yield("cancel"); cancel(); cancelled = true })
	api.Assert(e.Start(ctx, p.ID) == nil, "Start of a submitted plan succeeds")
	e.Wait(context.Background(), p.ID)
	api.Quiesce()
	if cancelledMidRun {
		api.Reach("caller cancelled while the plan was running")
	}
	// what ran is decided by the verdicts alone, never by the caller's cancellation
	b0ok := finished["b0.s0.a0"] && okv["b0.s0.a0"]
	api.Assert(finished["b0.s0.a0"], "C01: the first block's action is invoked")
	if b0ok {
		api.Assert(finished["b1.pre.a0"], "C01: a block's pre-checks run when the block is reached (cancelling the caller's context does not skip them)")
	}
	api.Assert(finished["plan.deferred.a0"], "C07: deferred checks of an entered plan always run")
	st := vault.Img[p.ID].Status
	api.Assert(st == workflow.Completed || st == workflow.Failed, "C04: the plan reaches a terminal state")
	allOK := b0ok && okv["b1.pre.a0"] && okv["b1.s0.a0"] && okv["b1.post.a0"] && okv["plan.deferred.a0"]
	api.Assert((st == workflow.Completed) == allOK, "C04: the plan is Completed exactly when nothing failed")
}
