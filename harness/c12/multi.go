//verif:package internal/execute
//verif:uses New, (*Plans).Start, (*Plans).Wait (exported)

package execute

import (
	"fmt"
	"time"

	"github.com/element-of-surprise/coercion/internal/zzverif/api"
	"github.com/element-of-surprise/coercion/internal/zzverif/kit"
	"github.com/element-of-surprise/coercion/internal/zzverif/shape"
	"github.com/element-of-surprise/coercion/workflow"
	"github.com/element-of-surprise/coercion/workflow/context"
	"github.com/element-of-surprise/coercion/workflow/utils/walk"
	"github.com/google/uuid"
)

// vhMultiPlan: plan i of the several-plans harness. Plan 0 has two blocks of one sequence (one block at a time must
// hold while another plan runs), plan 1 has one block with two sequences and Concurrency 1 or 2.
func vhMultiPlan(i int) *workflow.Plan {
	cfg := shape.Cfg{MinBlocks: 1, MaxBlocks: 1, MinSeqs: 2, MaxSeqs: 2, MinActions: 1, MaxActions: 1, WithState: true, Req: kit.Req{}}
	if i == 0 {
		cfg.MinBlocks, cfg.MaxBlocks, cfg.MinSeqs, cfg.MaxSeqs = 2, 2, 1, 1
	}
	p := shape.Plan(cfg)
	pre := fmt.Sprintf("p%d.", i)
	p.Name = pre + "plan"
	for _, b := range p.Blocks {
		b.Name = pre + b.Name
		b.Concurrency = 1
		if i == 1 {
			b.Concurrency = 1 + api.Choose("p1.concurrency", 2)
		}
		for _, s := range b.Sequences {
			s.Name = pre + s.Name
			for _, a := range s.Actions {
				a.Name = pre + a.Name
				a.Timeout = 30 * time.Second
			}
		}
	}
	p.SubmitTime = vhFresh()
	return p
}

// VerifMulti: two plans started on one executor and waited for by two callers. The in-flight limits (C02) are
// asserted at every plugin entry, the clauses of C04 at the instant each Wait returns (while the other plan may
// still be running) and again after everything has settled.
func VerifMulti() {
	api.LogicalClock()
	mon := kit.NewMon(kit.ModeOkFail)
	vault := kit.NewVault()
	reg := kit.NewRegistry(mon)
	e, err := New(context.Background(), vault, reg)
	api.Assert(err == nil && e != nil, "New succeeds")
	plans := []*workflow.Plan{vhMultiPlan(0), vhMultiPlan(1)}
	owner := map[uuid.UUID]int{} // object id -> plan index
	for i, p := range plans {
		mon.Track(p)
		api.Assert(vault.Create(context.Background(), p) == nil, "Create succeeds")
		for it := range walk.Plan(p) {
			owner[vhObjID(it.Value)] = i
		}
	}

	seqBusy := map[*workflow.Sequence]int{}
	failed := [2]bool{}
	bothBusy := false
	mon.OnEnter = func(in *kit.Info, c *kit.Call) {
		seqBusy[in.Seq]++
		pi := owner[in.Action.ID]
		busyHere, busyOther := 0, 0
		for s, n := range seqBusy {
			if n == 0 {
				continue
			}
			switch {
			case in.Block.Sequences[0] == s || (len(in.Block.Sequences) > 1 && in.Block.Sequences[1] == s):
				busyHere++
			case owner[s.ID] == pi:
				busyOther++
			default:
				bothBusy = true
			}
		}
		api.Assert(busyHere <= in.Block.Concurrency, "C02: sequences of a block in flight never exceed its Concurrency (several plans on one Workstream)")
		api.Assert(busyOther == 0, "C02: sequences of two different blocks of one plan are never in flight together (several plans on one Workstream)")
		if busyHere == 2 {
			api.Reach("two sequences of one block in flight")
		}
	}
	mon.OnExit = func(in *kit.Info, c *kit.Call) {
		seqBusy[in.Seq]--
		if c.Verdict != kit.VOk {
			failed[owner[in.Action.ID]] = true
		}
	}

	for _, p := range plans {
		api.Assert(e.Start(context.Background(), p.ID) == nil, "Start of a submitted plan succeeds")
	}
	writesAtWait := [2]int{}
	otherRunning := false
	done := [2]chan struct{}{make(chan struct{}), make(chan struct{})}
	planWrites := func(i int) int {
		n := 0
		for _, w := range vault.Log {
			if pi, ok := owner[w.ID]; ok && pi == i {
				n++
			}
		}
		return n
	}
	for i := range plans {
		i := i
		api.Spawn(func() {
			e.Wait(context.Background(), plans[i].ID)
			// the instant Wait returns: no yield between here and the end of this function
			st := vault.Img[plans[i].ID].Status
			api.Assert(st == workflow.Completed || st == workflow.Failed, "C04: when Wait returns the stored plan is Completed or Failed (several plans)")
			for it := range walk.Plan(plans[i]) {
				api.Assert(vault.Img[vhObjID(it.Value)].Status != workflow.Running, "C04: when Wait returns nothing in the plan is still Running (several plans)")
			}
			for it := range walk.Plan(plans[i]) {
				if a, ok := it.Value.(*workflow.Action); ok {
					api.Assert(mon.Inflight[a.Name] == 0, "C04: when Wait returns no plugin is still executing for the plan (several plans)")
				}
			}
			writesAtWait[i] = planWrites(i)
			o := vault.Img[plans[1-i].ID].Status
			if o == workflow.Running {
				otherRunning = true
			}
			close(done[i])
		})
	}
	<-done[0]
	<-done[1]
	api.Quiesce()
	for i, p := range plans {
		api.Assert(planWrites(i) == writesAtWait[i], "C04: the stored plan never changes after Wait returned (several plans)")
		st := vault.Img[p.ID].Status
		api.Assert((st == workflow.Completed) == !failed[i], "C04: a plan is Completed exactly when none of its own actions failed (another plan's failure does not leak)")
		for _, b := range p.Blocks {
			for _, s := range b.Sequences {
				api.Assert(mon.Calls[s.Actions[0].Name] <= 1, "C12: every action is invoked at most once")
			}
		}
	}
	if otherRunning {
		api.Reach("Wait returned while the other plan was still Running")
	}
	if bothBusy {
		api.Reach("actions of both plans in flight together")
	}
	if failed[0] != failed[1] {
		api.Reach("one plan failed, the other completed")
	}
}

func vhObjID(o workflow.Object) uuid.UUID {
	switch x := o.(type) {
	case *workflow.Plan:
		return x.ID
	case *workflow.Checks:
		return x.ID
	case *workflow.Block:
		return x.ID
	case *workflow.Sequence:
		return x.ID
	case *workflow.Action:
		return x.ID
	}
	return uuid.Nil
}
