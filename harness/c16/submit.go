//verif:package .
//verif:uses New, (*Workstream).Submit, (*Workstream).Start (exported)

package coercion

import (
	"fmt"
	"time"

	"github.com/element-of-surprise/coercion/internal/zzverif/api"
	"github.com/element-of-surprise/coercion/internal/zzverif/kit"
	"github.com/element-of-surprise/coercion/internal/zzverif/shape"
	"github.com/element-of-surprise/coercion/workflow"
	"github.com/element-of-surprise/coercion/workflow/context"
	"github.com/element-of-surprise/coercion/workflow/utils/walk"
	"github.com/google/uuid"
)

// Mutation classes applied to a valid plan (written from the statement of C16).
const (
	vmNone = iota
	vmBlankName
	vmBlankDescr
	vmPresetID
	vmPresetState
	vmPresetAttempts
	vmKeyNotV7
	vmKeyDuplicate
	vmPluginUnknown
	vmPluginBlank
	vmReqRejected
	vmNilElement
	vmEmptyChildren
	vmPresetReason
	vmPresetSubmitTime
	vmPresetRegister
	vmCheckUsesActionPlugin // accepted by Submit, refused by Start
	vmValidKeys             // distinct version-7 keys everywhere: still valid
	vmN
)

var vmNames = [...]string{"none", "blank name", "blank descr", "preset id", "preset state", "preset attempts", "key not v7", "duplicate key",
	"unknown plugin", "blank plugin", "request rejected", "nil element", "empty children", "preset reason", "preset submit time", "preset register",
	"check uses action plugin", "valid keys"}

type vhObjs struct {
	plan    *workflow.Plan
	checks  []*workflow.Checks
	blocks  []*workflow.Block
	seqs    []*workflow.Sequence
	actions []*workflow.Action
	checkActions []*workflow.Action
	all     []workflow.Object
}

func vhCollect(p *workflow.Plan) *vhObjs {
	o := &vhObjs{plan: p}
	for it := range walk.Plan(p) {
		o.all = append(o.all, it.Value)
		switch x := it.Value.(type) {
		case *workflow.Checks:
			o.checks = append(o.checks, x)
		case *workflow.Block:
			o.blocks = append(o.blocks, x)
		case *workflow.Sequence:
			o.seqs = append(o.seqs, x)
		case *workflow.Action:
			o.actions = append(o.actions, x)
			if len(it.Chain) > 0 {
				if _, ok := it.Chain[len(it.Chain)-1].(*workflow.Checks); ok {
					o.checkActions = append(o.checkActions, x)
				}
			}
		}
	}
	return o
}

func pick(name string, n int) int {
	if n <= 1 {
		return 0
	}
	return api.Choose(name, n)
}

// vhMutate applies mutation m somewhere in the plan; returns false if the plan has no place for it.
func vhMutate(o *vhObjs, m int, reg interface{}, tag string) bool {
	p := o.plan
	blank := []string{"", " \t"}[pick(tag+"blank", 2)]
	switch m {
	case vmNone:
		return true
	case vmBlankName, vmBlankDescr:
		k := pick(tag+"kind", 4)
		set := func(name, descr *string) {
			if m == vmBlankName {
				*name = blank
			} else {
				*descr = blank
			}
		}
		switch k {
		case 0:
			set(&p.Name, &p.Descr)
		case 1:
			b := o.blocks[pick(tag+"block", len(o.blocks))]
			set(&b.Name, &b.Descr)
		case 2:
			s := o.seqs[pick(tag+"seq", len(o.seqs))]
			set(&s.Name, &s.Descr)
		case 3:
			a := o.actions[pick(tag+"action", len(o.actions))]
			set(&a.Name, &a.Descr)
		}
	case vmPresetID, vmPresetState:
		obj := o.all[pick(tag+"obj", len(o.all))]
		id := workflow.NewV7()
		st := &workflow.State{}
		switch x := obj.(type) {
		case *workflow.Plan:
			if m == vmPresetID {
				x.ID = id
			} else {
				x.State = st
			}
		case *workflow.Checks:
			if m == vmPresetID {
				x.ID = id
			} else {
				x.State = st
			}
		case *workflow.Block:
			if m == vmPresetID {
				x.ID = id
			} else {
				x.State = st
			}
		case *workflow.Sequence:
			if m == vmPresetID {
				x.ID = id
			} else {
				x.State = st
			}
		case *workflow.Action:
			if m == vmPresetID {
				x.ID = id
			} else {
				x.State = st
			}
		}
	case vmPresetAttempts:
		a := o.actions[pick(tag+"action", len(o.actions))]
		if pick(tag+"empty", 2) == 0 {
			a.Attempts = []*workflow.Attempt{}
		} else {
			a.Attempts = []*workflow.Attempt{{}}
		}
	case vmKeyNotV7, vmKeyDuplicate, vmValidKeys:
		// objects that carry a Key
		type keyed struct{ key *uuid.UUID }
		var ks []keyed
		for _, c := range o.checks {
			ks = append(ks, keyed{&c.Key})
		}
		for _, b := range o.blocks {
			ks = append(ks, keyed{&b.Key})
		}
		for _, s := range o.seqs {
			ks = append(ks, keyed{&s.Key})
		}
		for _, a := range o.actions {
			ks = append(ks, keyed{&a.Key})
		}
		switch m {
		case vmKeyNotV7:
			*ks[pick(tag+"keyed", len(ks))].key = uuid.MustParse("6ba7b810-9dad-11d1-80b4-00c04fd430c8") // version 1
		case vmKeyDuplicate:
			if len(ks) < 2 {
				return false
			}
			i := pick(tag+"keyed", len(ks))
			j := pick(tag+"keyed2", len(ks)-1)
			if j >= i {
				j++
			}
			k := workflow.NewV7()
			*ks[i].key = k
			*ks[j].key = k
		case vmValidKeys:
			for _, k := range ks {
				*k.key = workflow.NewV7()
			}
		}
	case vmPluginUnknown:
		o.actions[pick(tag+"action", len(o.actions))].Plugin = "nosuchplugin"
	case vmPluginBlank:
		o.actions[pick(tag+"action", len(o.actions))].Plugin = blank
	case vmReqRejected:
		a := o.actions[pick(tag+"action", len(o.actions))]
		if pick(tag+"wrongtype", 2) == 0 {
			a.Req = kit.Req{N: -1}
		} else {
			a.Req = "not a request"
		}
	case vmNilElement:
		switch pick(tag+"kind", 3) {
		case 0:
			i := pick(tag+"block", len(p.Blocks))
			p.Blocks[i] = nil
		case 1:
			b := o.blocks[pick(tag+"block", len(o.blocks))]
			b.Sequences[pick(tag+"seq", len(b.Sequences))] = nil
		case 2:
			if pick(tag+"incheck", 2) == 1 && len(o.checks) > 0 {
				c := o.checks[pick(tag+"check", len(o.checks))]
				c.Actions[pick(tag+"action", len(c.Actions))] = nil
			} else {
				s := o.seqs[pick(tag+"seq", len(o.seqs))]
				s.Actions[pick(tag+"action", len(s.Actions))] = nil
			}
		}
	case vmEmptyChildren:
		nilSlice := pick(tag+"nil", 2) == 1
		switch pick(tag+"kind", 4) {
		case 0:
			p.Blocks = []*workflow.Block{}
			if nilSlice {
				p.Blocks = nil
			}
		case 1:
			b := o.blocks[pick(tag+"block", len(o.blocks))]
			b.Sequences = []*workflow.Sequence{}
			if nilSlice {
				b.Sequences = nil
			}
		case 2:
			s := o.seqs[pick(tag+"seq", len(o.seqs))]
			s.Actions = []*workflow.Action{}
			if nilSlice {
				s.Actions = nil
			}
		case 3:
			if len(o.checks) == 0 {
				return false
			}
			c := o.checks[pick(tag+"check", len(o.checks))]
			c.Actions = nil
		}
	case vmPresetReason:
		p.Reason = workflow.FailureReason(api.NondetInt(tag + "reason"))
		api.Assume(p.Reason != workflow.FRUnknown)
	case vmPresetSubmitTime:
		p.SubmitTime = api.NondetTime(tag + "submit_time")
		api.Assume(!p.SubmitTime.IsZero())
	case vmPresetRegister:
		o.actions[pick(tag+"action", len(o.actions))].SetRegister(kit.NewRegistry(kit.NewMon(kit.ModeOkFail)))
	case vmCheckUsesActionPlugin:
		if len(o.checkActions) == 0 {
			return false
		}
		o.checkActions[pick(tag+"action", len(o.checkActions))].Plugin = "action"
	}
	return true
}

func vhInvalidating(m int) bool {
	return m != vmNone && m != vmCheckUsesActionPlugin && m != vmValidKeys
}

func vhC16(pairs bool) {
	api.LogicalClock()
	mon := kit.NewMon(kit.ModeOkFail)
	vault := kit.NewVault()
	reg := kit.NewRegistry(mon)
	ctx := context.Background()
	ws, err := New(ctx, reg, vault)
	api.Assert(err == nil && ws != nil, "New succeeds")

	cfg := shape.Cfg{MinBlocks: 1, MaxBlocks: api.Bound("blocks", 2, 2), MinSeqs: 1, MaxSeqs: api.Bound("seqs", 2, 2), MinActions: 1, MaxActions: api.Bound("actions", 2, 2),
		PlanGroups: api.Bound("plan_groups_family", shape.GroupsNoneOrAll, shape.GroupsNoneOrAll), BlockGroups: api.Bound("block_groups_family", shape.GroupsNone, shape.GroupsNoneOrAll), CheckActions: 1,
		SimpleTailBlocks: true, SimpleTailSeqs: true, Req: kit.Req{}}
	timed := api.Bound("timed_action_choices", 1, 2)
	if pairs {
		// pairs of mutations square the number of (class, position) choices: one block, one sequence, <=2 actions, plan groups none or all
		cfg.MaxBlocks, cfg.MaxSeqs = 1, 1
		cfg.PlanGroups, cfg.BlockGroups = api.Bound("pairs_plan_groups_family", shape.GroupsNoneOrAll, shape.GroupsNoneOrAll), shape.GroupsNone
		timed = 1
	}
	p := shape.Plan(cfg)
	o := vhCollect(p)
	// one designated action gets an arbitrary timeout and retry budget
	if timed > len(o.actions) {
		timed = len(o.actions)
	}
	da := o.actions[len(o.actions)-1-pick("timed_action", timed)]
	da.Timeout = api.NondetDuration("timeout")
	da.Retries = api.NondetInt("retries")
	for i, b := range o.blocks {
		b.Concurrency = api.NondetInt(fmt.Sprintf("conc:b%d", i))
	}
	timeoutOK := da.Timeout == 0 || da.Timeout >= 5*time.Second

	m1 := api.Choose("mutation", vmN)
	api.Fact("mutation", vmNames[m1])
	if !vhMutate(o, m1, reg, "m1.") {
		api.Assume(false)
	}
	m2 := vmNone
	if pairs {
		m2 = api.Choose("mutation2", vmN)
		api.Fact("mutation2", vmNames[m2])
		if m1 == vmNilElement || m2 == vmNilElement || m1 == vmEmptyChildren || m2 == vmEmptyChildren {
			api.Assume(m2 == vmNone || m1 == vmNone) // structural mutations are combined with nothing (object lists change)
		}
		// the second mutation must not repair the first one (it is applied on top of it): a fresh valid key over a bad
		// one, or the action plugin written over an unknown/blank plugin name of a check action. The reverse orders
		// are explored and cover the combinations.
		if m2 == vmValidKeys && (m1 == vmKeyNotV7 || m1 == vmKeyDuplicate) {
			api.Assume(false)
		}
		if m2 == vmCheckUsesActionPlugin && (m1 == vmPluginUnknown || m1 == vmPluginBlank) {
			api.Assume(false)
		}
		if !vhMutate(o, m2, reg, "m2.") {
			api.Assume(false)
		}
	}
	wellFormed := !vhInvalidating(m1) && !vhInvalidating(m2) && timeoutOK

	id, serr := ws.Submit(ctx, p)
	if wellFormed {
		api.Assert(serr == nil && id != uuid.Nil, "Submit accepts a well-formed plan")
	} else {
		api.Assert(serr != nil, "Submit rejects a plan that is not well formed")
	}
	if serr != nil {
		api.Assert(len(vault.Plans) == 0 && len(vault.Img) == 0, "a rejected plan leaves nothing in storage")
		api.Reach("rejected")
		return
	}
	api.Reach("accepted")
	stored := vault.Plans[id]
	api.Assert(stored != nil, "an accepted plan is stored under the returned id")
	if stored == nil {
		return
	}
	seen := map[uuid.UUID]bool{}
	for it := range walk.Plan(stored) {
		oid := vhID16(it.Value)
		api.Assert(oid != uuid.Nil && oid.Version() == 7, "every object of an accepted plan gets a version-7 id")
		api.Assert(!seen[oid], "ids of an accepted plan are pairwise distinct")
		seen[oid] = true
		st := vhState16(it.Value)
		api.Assert(st != nil, "every object of an accepted plan has a state")
		if st != nil {
			api.Assert(st.Status == workflow.NotStarted && st.Start.IsZero() && st.End.IsZero(), "every object of an accepted plan is pristine NotStarted")
		}
		switch x := it.Value.(type) {
		case *workflow.Block:
			api.Assert(x.Concurrency >= 1, "an accepted block has Concurrency >= 1")
		case *workflow.Action:
			api.Assert(x.Timeout >= 5*time.Second, "an accepted action has a timeout of at least five seconds (zero replaced by the default)")
			api.Assert(x.Retries >= 0, "an accepted action has a non-negative retry budget")
			api.Assert(len(x.Attempts) == 0, "an accepted action has no attempts")
		}
	}
	api.Assert(!stored.SubmitTime.IsZero(), "an accepted plan gets a submit time")
	api.Assert(stored.Reason == workflow.FRUnknown, "an accepted plan has no failure reason")

	// Start additionally refuses plans whose check actions use non-check plugins
	mon.Track(stored)
	sterr := ws.Start(ctx, id)
	if m1 == vmCheckUsesActionPlugin || m2 == vmCheckUsesActionPlugin {
		api.Assert(sterr != nil, "Start refuses a plan whose check action uses a non-check plugin")
		api.Quiesce()
		api.Assert(len(mon.Log) == 0 && len(vault.Log) == 0, "a refused Start has no side effects")
		api.Reach("start refused")
	} else {
		api.Assert(sterr == nil, "Start accepts a well-formed submitted plan")
		api.Reach("start accepted")
		// the execution itself is the subject of C01..C08; the path ends here
	}
}

func vhID16(o workflow.Object) uuid.UUID {
	switch x := o.(type) {
	case *workflow.Plan:
		return x.ID
	case *workflow.Checks:
		return x.ID
	case *workflow.Block:
		return x.ID
	case *workflow.Sequence:
		return x.ID
	case *workflow.Action:
		return x.ID
	}
	return uuid.Nil
}

func vhState16(o workflow.Object) *workflow.State {
	switch x := o.(type) {
	case *workflow.Plan:
		return x.State
	case *workflow.Checks:
		return x.State
	case *workflow.Block:
		return x.State
	case *workflow.Sequence:
		return x.State
	case *workflow.Action:
		return x.State
	}
	return nil
}

// VerifC16Single: every single mutation at every object of every plan shape within the bound.
func VerifC16Single() { vhC16(false) }

// VerifC16Pairs: pairs of mutations (thorough).
func VerifC16Pairs() { vhC16(true) }
