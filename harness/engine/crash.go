//verif:package internal/execute/sm

package sm

import (
	"github.com/element-of-surprise/coercion/internal/zzverif/api"
	"github.com/element-of-surprise/coercion/internal/zzverif/kit"
	"github.com/element-of-surprise/coercion/internal/zzverif/shape"
	"github.com/element-of-surprise/coercion/workflow"
	"github.com/google/uuid"
)

const (
	oC09 = 1 << 10
	oC10 = 1 << 11
)

// vhRecoverWorld builds the recovering process: a fresh copy of the plan as a vault Read returns it for the
// durable image img, a new engine instance, a new monitor (sharing per-action verdicts in ModePerAction).
func vhRecoverWorld(prev *vhWorld, img map[uuid.UUID]*kit.Image, tag string) *vhWorld {
	p2 := api.DeepCopy(prev.plan)
	w := &vhWorld{plan: p2, orc: 0, lastVerdict: map[string]int{}, finished: map[string]int{}, groupRuns: map[*workflow.Checks]int{},
		deferredOn: map[string]bool{}, contFailed: map[*workflow.Checks]bool{}, everFailed: map[*workflow.Checks]bool{},
		seqStarted: map[*workflow.Sequence]bool{}, seqFailedN: map[*workflow.Block]int{}, firstRunFailed: map[*workflow.Checks]bool{}}
	w.mon = kit.NewMon(prev.mon.Mode)
	w.mon.Tag = tag
	if prev.mon.Mode == kit.ModePerAction {
		w.mon.SharePerAction(prev.mon)
	}
	w.vault = kit.NewVault()
	w.vault.Coarse = prev.vault.Coarse
	w.vault.SeedImage(p2, img)
	w.vault.ApplyImage(p2)
	w.mon.Track(p2)
	w.attach()
	return w
}

func vhStatusTerminal(s workflow.Status) bool {
	return api.IteBool(s == workflow.Completed, true, s == workflow.Failed)
}

// vhDurablyDone: the image shows the action finished successfully (Completed status or an error-free last attempt).
func vhDurablyDone(im *kit.Image) bool {
	done := im.Status == workflow.Completed
	if n := len(im.Attempts); n > 0 {
		last := im.Attempts[n-1]
		done = api.IteBool(done, true, api.IteBool(last.HasErr, false, !last.End.IsZero()))
	}
	return done
}

// vhCrashRecover: run forward to the end, crash after c durable writes (c is a solver variable), recover in a
// second engine instance from the durable image, and check C09 / C10.
func vhCrashRecover(orc int, fam int, mode int, second bool) {
	// every action gets a retry budget of 0 or 1 (a budget left over at the crash must not cause a re-run)
	vhRetries = 0
	if fam == famSeqSmall {
		vhRetries = api.Choose("retries", 2)
	}
	w1 := vhNewWorld(vhCfg(fam), mode, 0)
	if fam == famSeqSmall && !second && vhRetries == 0 && orc&oC09 != 0 {
		// the durable image as a clock too coarse to separate any two instants of the run would leave it: every
		// stored start and end is the same instant (a successful attempt then has End == Start, not End > Start)
		w1.vault.Coarse = api.Choose("coarse_clock", 2) == 1
		if w1.vault.Coarse {
			api.Fact("clock", "coarse")
		}
	}
	init := w1.vault.Snapshot()
	w1.run(false)
	api.Quiesce()
	n := len(w1.vault.Log)
	finalStatus := w1.vault.Img[w1.plan.ID].Status

	c := api.NondetInt("crash")
	api.Assume(api.IteBool(c >= 0, c <= n, false))
	img := w1.vault.ImageAt(c, init)
	// only plans durably Running are resumed (C11); everything else is left alone
	api.Assume(img[w1.plan.ID].Status == workflow.Running)
	api.Reach("crash while the plan is durably Running")
	if w1.vault.Coarse {
		api.Reach("crash under a coarse clock")
	}

	w2 := vhRecoverWorld(w1, img, "r1:")
	w2.run(true)
	vhCheckRecovery(orc, w1, w2, img, finalStatus, "")

	if second {
		init2 := w2.vault.Snapshot()
		_ = init2
		n2 := len(w2.vault.Log)
		c2 := api.NondetInt("crash2")
		api.Assume(api.IteBool(c2 >= 0, c2 <= n2, false))
		img2 := w2.vault.ImageAt(c2, vhImgCopy(img))
		api.Assume(img2[w2.plan.ID].Status == workflow.Running)
		api.Reach("second crash during recovery")
		w3 := vhRecoverWorld(w2, img2, "r2:")
		w3.run(true)
		vhCheckRecovery(orc, w2, w3, img2, finalStatus, " (second crash)")
	}
}

func vhImgCopy(m map[uuid.UUID]*kit.Image) map[uuid.UUID]*kit.Image {
	out := map[uuid.UUID]*kit.Image{}
	for k, v := range m {
		cp := *v
		out[k] = &cp
	}
	return out
}

// vhStatusLetter resolves a (possibly symbolic) status into a letter; forks only if recovery did not already decide it.
func vhStatusLetter(s workflow.Status) string {
	switch {
	case s == workflow.NotStarted:
		return "N"
	case s == workflow.Running:
		return "R"
	case s == workflow.Completed:
		return "C"
	case s == workflow.Failed:
		return "F"
	}
	return "?"
}

func vhCheckRecovery(orc int, w1, w2 *vhWorld, img map[uuid.UUID]*kit.Image, uninterrupted workflow.Status, sfx string) {
	p2 := w2.plan
	// scenario facts (key of known findings): block statuses in the durable image at the crash, and whether
	// the recovering process invoked anything
	sig := ""
	anyFailed := "no"
	for _, b := range p2.Blocks {
		l := vhStatusLetter(img[b.ID].Status)
		sig += l
		if l == "F" {
			anyFailed = "yes"
		}
	}
	api.Fact("i:crash.blocks"+sfx, sig)
	api.Fact("crash.block_failed"+sfx, anyFailed)
	total := 0
	for _, n := range w2.mon.Calls {
		total += n
	}
	if total > 0 {
		api.Fact("recovery.invoked"+sfx, "yes")
	} else {
		api.Fact("recovery.invoked"+sfx, "no")
	}
	if orc&oC09 != 0 {
		for _, in := range w2.mon.ByID {
			calls := w2.mon.Calls[in.Key]
			aim := img[in.Action.ID]
			if in.Seq != nil {
				if calls > 0 {
					api.Assert(!vhDurablyDone(aim), "C09: a sequence action whose success was durable is never invoked again"+sfx)
					api.Assert(!vhStatusTerminal(img[in.Seq.ID].Status), "C09: a sequence durably Completed or Failed is never re-run"+sfx)
					api.Assert(aim.Status != workflow.Failed, "C09: a sequence action durably Failed is never invoked again"+sfx)
					api.Reach("action invoked during recovery")
				} else {
					api.Reach("action not invoked during recovery")
				}
			}
			if in.Block != nil && calls > 0 {
				api.Assert(!vhStatusTerminal(img[in.Block.ID].Status), "C09: nothing of a block durably Completed or Failed is invoked again"+sfx)
			}
		}
		// durable results are never lost
		for _, in := range w2.mon.ByID {
			if in.Seq == nil {
				continue
			}
			aim := img[in.Action.ID]
			fin := w2.vault.Img[in.Action.ID]
			if n := len(aim.Attempts); n > 0 {
				done := vhDurablyDone(aim)
				// (that the action also ends Completed is C10's consistency clause, not C09's)
				api.Assert(!done || len(fin.Attempts) >= n, "C09: a durable successful attempt is kept by recovery"+sfx)
			}
		}
	}
	if orc&oC03 != 0 {
		// the tolerance decides the block's outcome across a restart exactly as without one (checks are absent in these shapes)
		w2.seqFailedN = map[*workflow.Block]int{}
		w2.checkC03x(true)
	}
	if orc&oC10 != 0 {
		// a second crash at any point of the recovering run must leave the plan resumable: durably Running or terminal,
		// never set back to a state that the next start-up would not pick up (the crash index is again a solver variable)
		c2 := api.NondetInt("recovery_crash" + sfx)
		api.Assume(api.IteBool(c2 >= 0, c2 <= len(w2.vault.Log), false))
		st2 := w2.vault.StatusAt(p2.ID, c2, img[p2.ID].Status)
		api.Assert(api.IteBool(st2 == workflow.Running, true, vhStatusTerminal(st2)), "C10: at every crash point of the recovering run the plan is durably Running or terminal"+sfx)
		w2.checkTerminalConsistent("C10" + sfx)
		// deferred checks of entered, non-bypassed scopes have run
		planBypassed := p2.BypassChecks != nil && w2.img(p2.BypassChecks.ID).Status == workflow.Completed
		if p2.DeferredChecks != nil && !planBypassed {
			api.Assert(vhTerminal(w2.img(p2.DeferredChecks.ID).Status), "C10: the plan's deferred checks have run after recovery"+sfx)
		}
		for _, b := range p2.Blocks {
			bim := w2.img(b.ID)
			bypassed := b.BypassChecks != nil && w2.img(b.BypassChecks.ID).Status == workflow.Completed
			if b.DeferredChecks != nil && bim.Status != workflow.NotStarted && !bypassed {
				api.Assert(vhTerminal(w2.img(b.DeferredChecks.ID).Status), "C10: the deferred checks of an entered block have run after recovery"+sfx)
			}
		}
		if w2.mon.Mode == kit.ModePerAction {
			api.Assert(w2.img(p2.ID).Status == uninterrupted, "C10: with per-action outcomes the recovered plan ends like the uninterrupted one"+sfx)
			if uninterrupted == workflow.Failed {
				api.Reach("uninterrupted outcome Failed")
			} else {
				api.Reach("uninterrupted outcome Completed")
			}
		}
		api.Quiesce()
		api.Assert(w2.mon.InflightTotal() == 0, "C10: nothing still executing after the recovered plan ended"+sfx)
	}
}

func VerifC09Seq()         { vhCrashRecover(oC09, famSeq, kit.ModeOkFail, false) }
func VerifC09PlanGroups()  { vhCrashRecover(oC09, famPlanGroupsSmall, kit.ModeOkFail, false) }
func VerifC09BlockGroups() { vhCrashRecover(oC09, famBlockGroupsSmall, kit.ModeOkFail, false) }
func VerifC09Conc()        { vhCrashRecover(oC09, famConc2, kit.ModeOkFail, false) }
func VerifC09Conc3()       { vhCrashRecover(oC09, famConc, kit.ModeOkFail, false) }
func VerifC10Conc3()       { vhCrashRecover(oC10, famConc, kit.ModePerAction, false) }
func VerifC09Double()      { vhCrashRecover(oC09, famTiny, kit.ModeOkFail, true) }

func VerifC10Seq()         { vhCrashRecover(oC10, famSeq, kit.ModePerAction, false) }
func VerifC10PlanGroups()  { vhCrashRecover(oC10, famPlanGroupsSmall, kit.ModeOkFail, false) }
func VerifC10BlockGroups() { vhCrashRecover(oC10, famBlockGroupsSmall, kit.ModeOkFail, false) }
func VerifC10Conc()        { vhCrashRecover(oC10, famConc2, kit.ModePerAction, false) }
func VerifC10Double()      { vhCrashRecover(oC10, famTiny, kit.ModePerAction, true) }

var _ = shape.GBypass

func VerifC09SeqSmall() { vhCrashRecover(oC09, famSeqSmall, kit.ModePerAction, false) }
func VerifC10SeqSmall() { vhCrashRecover(oC10, famSeqSmall, kit.ModePerAction, false) }
func VerifC0910SeqSmallOkFail() { vhCrashRecover(oC09|oC10, famSeqSmall, kit.ModeOkFail, false) }

func VerifDbgCrash() {
	c := vhCfg(famSeqSmall)
	c.MaxSeqs, c.MaxActions = 1, 1
	w1 := vhNewWorld(c, kit.ModeOkFail, 0)
	init := w1.vault.Snapshot()
	w1.run(false)
	n := len(w1.vault.Log)
	cr := api.NondetInt("crash")
	api.Assume(cr >= 0 && cr <= n)
	img := w1.vault.ImageAt(cr, init)
	api.Assume(img[w1.plan.ID].Status == workflow.Running)
	w2 := vhRecoverWorld(w1, img, "r1:")
	w2.run(true)
	vhCheckRecovery(oC10, w1, w2, img, workflow.Completed, "")
}

func VerifC0910PlanGroups()  { vhCrashRecover(oC09|oC10, famPlanGroupsSmall, kit.ModeOkFail, false) }
func VerifC0910BlockGroups() { vhCrashRecover(oC09|oC10, famBlockGroupsSmall, kit.ModeOkFail, false) }
func VerifC0910Conc()        { vhCrashRecover(oC09|oC10, famConc2, kit.ModePerAction, false) }

func VerifC03CrashSeq()  { vhCrashRecover(oC03, famSeqSmall, kit.ModePerAction, false) }
func VerifC03CrashConc() { vhCrashRecover(oC03, famConc2, kit.ModePerAction, false) }
