//verif:package internal/execute/sm

package sm

import (
	"github.com/element-of-surprise/coercion/internal/zzverif/api"
	"github.com/element-of-surprise/coercion/internal/zzverif/kit"
	"github.com/element-of-surprise/coercion/internal/zzverif/shape"
)

// Shape families of the full-engine harness (bounds are echoed in evidence through api.Bound).
const (
	famSeq         = iota // blocks x sequences x actions, no check groups
	famPlanGroups         // one block/sequence/action, any subset of the plan-level groups
	famBlockGroups        // one block/sequence/action, any subset of the block-level groups
	famBothGroups         // plan-level family x block-level family
	famConc               // one block, 2..3 sequences of one action: concurrency and tolerance
	famPlanGroupsSmall    // 1x1x1, plan-level groups from the 7-subset family
	famBlockGroupsSmall   // 1x1x1, block-level groups from the 7-subset family
	famConc2              // one block, exactly 2 sequences of one action
	famSeqSmall           // one block, <=2 sequences, <=2 actions
)

func vhCfg(fam int) shape.Cfg {
	switch fam {
	case famSeq:
		return shape.Cfg{MinBlocks: 1, MaxBlocks: api.Bound("blocks", 2, 2), MinSeqs: 1, MaxSeqs: api.Bound("seqs", 2, 2),
			MinActions: 1, MaxActions: api.Bound("actions", 2, 2), SimpleTailBlocks: api.Bound("simple_tail_blocks", 1, 0) == 1, SimpleTailSeqs: true}
	case famPlanGroups:
		return shape.Cfg{MinBlocks: 1, MaxBlocks: 1, MinSeqs: 1, MaxSeqs: 1, MinActions: 1, MaxActions: 1,
			PlanGroups: shape.GroupsAll, CheckActions: api.Bound("check_actions", 1, 2)}
	case famBlockGroups:
		return shape.Cfg{MinBlocks: 1, MaxBlocks: api.Bound("blocks_with_groups", 1, 2), MinSeqs: 1, MaxSeqs: 1, MinActions: 1, MaxActions: 1,
			BlockGroups: shape.GroupsAll, CheckActions: api.Bound("check_actions", 1, 2), SimpleTailBlocks: true}
	case famBothGroups:
		return shape.Cfg{MinBlocks: 1, MaxBlocks: 1, MinSeqs: 1, MaxSeqs: 1, MinActions: 1, MaxActions: 1,
			PlanGroups: shape.GroupsFamily, BlockGroups: shape.GroupsFamily, CheckActions: 1}
	case famConc:
		return shape.Cfg{MinBlocks: 1, MaxBlocks: 1, MinSeqs: 2, MaxSeqs: api.Bound("conc_seqs", 3, 3), MinActions: 1, MaxActions: 1}
	case famPlanGroupsSmall:
		return shape.Cfg{MinBlocks: 1, MaxBlocks: 1, MinSeqs: 1, MaxSeqs: 1, MinActions: 1, MaxActions: 1,
			PlanGroups: api.Bound("plan_groups_family", shape.GroupsFamily, shape.GroupsAll), CheckActions: 1}
	case famBlockGroupsSmall:
		return shape.Cfg{MinBlocks: 1, MaxBlocks: 1, MinSeqs: 1, MaxSeqs: 1, MinActions: 1, MaxActions: 1,
			BlockGroups: api.Bound("block_groups_family", shape.GroupsFamily, shape.GroupsAll), CheckActions: 1}
	case famConc2:
		return shape.Cfg{MinBlocks: 1, MaxBlocks: 1, MinSeqs: 2, MaxSeqs: 2, MinActions: 1, MaxActions: api.Bound("conc_actions", 1, 2)}
	case famSeqSmall:
		return shape.Cfg{MinBlocks: 1, MaxBlocks: 1, MinSeqs: 1, MaxSeqs: 2, MinActions: 1, MaxActions: 2, SimpleTailSeqs: true}
	}
	panic("unknown family")
}

// vhRunE: one uninterrupted run of the real engine from States.Start to End with the selected oracles.
func vhRunE(orc int, fam int) {
	w := vhNewWorld(vhCfg(fam), kit.ModeOkFail, orc)
	w.run(false)
	w.finish()
}

func VerifC01Seq()         { vhRunE(oC01, famSeq) }
func VerifC01PlanGroups()  { vhRunE(oC01, famPlanGroups) }
func VerifC01BlockGroups() { vhRunE(oC01, famBlockGroups) }
func VerifC01Conc()        { vhRunE(oC01, famConc) }

func VerifC02Conc() { vhRunE(oC02, famConc) }
func VerifC02Seq()  { vhRunE(oC02, famSeq) }

func VerifC03Conc() { vhRunE(oC03, famConc) }
func VerifC03Seq()  { vhRunE(oC03, famSeq) }

func VerifC04Seq()         { vhRunE(oC04, famSeq) }
func VerifC04PlanGroups()  { vhRunE(oC04, famPlanGroups) }
func VerifC04BlockGroups() { vhRunE(oC04, famBlockGroups) }
func VerifC04Conc()        { vhRunE(oC04, famConc) }

func VerifC06PlanGroups()  { vhRunE(oC06, famPlanGroups) }
func VerifC06BlockGroups() { vhRunE(oC06, famBlockGroups) }
func VerifC06BothGroups()  { vhRunE(oC06, famBothGroups) }

func VerifC07PlanGroups()  { vhRunE(oC07, famPlanGroups) }
func VerifC07BlockGroups() { vhRunE(oC07, famBlockGroups) }

func VerifC08Seq()         { vhRunE(oC08, famSeq) }
func VerifC08PlanGroups()  { vhRunE(oC08, famPlanGroups) }
func VerifC08BlockGroups() { vhRunE(oC08, famBlockGroups) }
func VerifC08Conc()        { vhRunE(oC08, famConc) }

// VerifEAll runs every oracle at once (development aid).
func VerifEAllSeq() { vhRunE(oC01|oC02|oC03|oC04|oC06|oC07|oC08, famSeq) }

func VerifEAllPlanGroups()  { vhRunE(oC01|oC02|oC03|oC04|oC06|oC07|oC08, famPlanGroups) }
func VerifEAllBlockGroups() { vhRunE(oC01|oC02|oC03|oC04|oC06|oC07|oC08, famBlockGroups) }
func VerifEAllConc()        { vhRunE(oC01|oC02|oC03|oC04|oC06|oC07|oC08, famConc) }

// VerifDbgF04a: plan-level continuous check only; development aid.
func VerifDbgF04a() {
	c := vhCfg(famPlanGroups)
	c.PlanGroups = shape.GroupsNone
	w := vhNewWorld(c, kit.ModeOkFail, oC04)
	w.plan.ContChecks = c.DbgChecks("plan.cont")
	w.mon.Track(w.plan)
	w.vault.Seed(w.plan)
	w.run(false)
	w.finish()
}
