//verif:package internal/execute/sm

package sm

import (
	"github.com/element-of-surprise/coercion/internal/zzverif/api"
	"github.com/element-of-surprise/coercion/internal/zzverif/kit"
	"github.com/element-of-surprise/coercion/internal/zzverif/shape"
)

// Shape families of the full-engine harness (bounds are echoed in evidence through api.Bound).
const (
	famSeq              = iota // blocks x sequences x actions, no check groups
	famPlanGroups              // one block/sequence/action, any subset of the plan-level groups
	famBlockGroups             // one block/sequence/action, any subset of the block-level groups
	famBothGroups              // plan-level family x block-level family
	famConc                    // one block, 2..3 sequences of one action: concurrency and tolerance
	famPlanGroupsSmall         // 1x1x1, plan-level groups from the 7-subset family
	famBlockGroupsSmall        // 1x1x1, block-level groups from the 7-subset family
	famConc2                   // one block, exactly 2 sequences of one action
	famSeqSmall                // one block, <=2 sequences, <=2 actions
	famConc4                   // one block, exactly 4 sequences of one action, Concurrency 2: a wave is still in flight when the loop re-checks
	famContSeqs                // one block with continuous (and optionally deferred) checks and 3 sequences of one action
	famConc4D                  // famConc4 plus block-level deferred checks
	famPlanCont                // 1x1x1, plan-level continuous checks over the 7-subset family of block-level groups
	famTiny                    // one block, one sequence, two actions (third engine instance after a second crash)
	famContBlocks              // two blocks: the first with continuous (and optionally deferred) checks and 1..2 sequences, the second plain
)

func vhCfg(fam int) shape.Cfg {
	switch fam {
	case famSeq:
		return shape.Cfg{MinBlocks: 1, MaxBlocks: api.Bound("blocks", 2, 2), MinSeqs: 1, MaxSeqs: api.Bound("seqs", 2, 2),
			MinActions: 1, MaxActions: api.Bound("actions", 2, 2), SimpleTailBlocks: api.Bound("simple_tail_blocks", 1, 0) == 1, SimpleTailSeqs: true}
	case famPlanGroups:
		return shape.Cfg{MinBlocks: 1, MaxBlocks: 1, MinSeqs: 1, MaxSeqs: 1, MinActions: 1, MaxActions: 1,
			PlanGroups: shape.GroupsAll, CheckActions: api.Bound("check_actions", 1, 2)}
	case famBlockGroups:
		return shape.Cfg{MinBlocks: 1, MaxBlocks: api.Bound("blocks_with_groups", 1, 2), MinSeqs: 1, MaxSeqs: 1, MinActions: 1, MaxActions: 1,
			BlockGroups: shape.GroupsAll, CheckActions: api.Bound("check_actions", 1, 2), SimpleTailBlocks: true}
	case famBothGroups:
		return shape.Cfg{MinBlocks: 1, MaxBlocks: 1, MinSeqs: 1, MaxSeqs: 1, MinActions: 1, MaxActions: 1,
			PlanGroups: shape.GroupsFamily, BlockGroups: shape.GroupsFamily, CheckActions: 1}
	case famConc:
		return shape.Cfg{MinBlocks: 1, MaxBlocks: 1, MinSeqs: 2, MaxSeqs: api.Bound("conc_seqs", 3, 3), MinActions: 1, MaxActions: 1}
	case famPlanGroupsSmall:
		return shape.Cfg{MinBlocks: 1, MaxBlocks: 1, MinSeqs: 1, MaxSeqs: 1, MinActions: 1, MaxActions: 1,
			PlanGroups: api.Bound("plan_groups_family", shape.GroupsFamily, shape.GroupsAll), CheckActions: 1}
	case famBlockGroupsSmall:
		return shape.Cfg{MinBlocks: 1, MaxBlocks: 1, MinSeqs: 1, MaxSeqs: 1, MinActions: 1, MaxActions: 1,
			BlockGroups: api.Bound("block_groups_family", shape.GroupsFamily, shape.GroupsAll), CheckActions: 1}
	case famConc2:
		return shape.Cfg{MinBlocks: 1, MaxBlocks: 1, MinSeqs: 2, MaxSeqs: 2, MinActions: 1, MaxActions: api.Bound("conc_actions", 1, 2)}
	case famConc4:
		return shape.Cfg{MinBlocks: 1, MaxBlocks: 1, MinSeqs: 4, MaxSeqs: 4, MinActions: 1, MaxActions: 1}
	case famConc4D:
		return shape.Cfg{MinBlocks: 1, MaxBlocks: 1, MinSeqs: 4, MaxSeqs: 4, MinActions: 1, MaxActions: 1, BlockGroups: shape.GroupsDeferred, CheckActions: 1}
	case famContSeqs:
		return shape.Cfg{MinBlocks: 1, MaxBlocks: 1, MinSeqs: 3, MaxSeqs: 3, MinActions: 1, MaxActions: 1, BlockGroups: shape.GroupsContDeferred, CheckActions: 1}
	case famTiny:
		return shape.Cfg{MinBlocks: 1, MaxBlocks: 1, MinSeqs: 1, MaxSeqs: 1, MinActions: 2, MaxActions: 2}
	case famPlanCont:
		return shape.Cfg{MinBlocks: 1, MaxBlocks: 1, MinSeqs: 1, MaxSeqs: 1, MinActions: 1, MaxActions: 1, PlanGroups: shape.GroupsCont, BlockGroups: shape.GroupsFamily, CheckActions: 1}
	case famContBlocks:
		return shape.Cfg{MinBlocks: 2, MaxBlocks: 2, MinSeqs: 1, MaxSeqs: 2, MinActions: 1, MaxActions: 1, BlockGroups: shape.GroupsContDeferred, CheckActions: 1, SimpleTailBlocks: true}
	case famSeqSmall:
		return shape.Cfg{MinBlocks: 1, MaxBlocks: 1, MinSeqs: 1, MaxSeqs: 2, MinActions: 1, MaxActions: 2, SimpleTailSeqs: true}
	}
	panic("unknown family")
}

// vhRunE: one uninterrupted run of the real engine from States.Start to End with the selected oracles.
func vhRunE(orc int, fam int) {
	w := vhNewWorld(vhCfg(fam), kit.ModeOkFail, orc)
	vhFamAssume(w, fam)
	w.run(false)
	w.finish()
}

// vhFamAssume narrows Concurrency/ToleratedFailures for the families whose point is one particular relation between
// the number of sequences and the concurrency (the generic families keep both fully symbolic).
func vhFamAssume(w *vhWorld, fam int) {
	b := w.plan.Blocks[0]
	switch fam {
	case famConc4, famConc4D:
		// 4 sequences in waves of 2: the launch loop re-checks the tolerance while the first wave can still be in flight
		api.Assume(b.Concurrency == 2)
		if api.Bound("conc4_any_tolerance", 0, 1) == 0 {
			api.Assume(b.ToleratedFailures == 0)
		}
	case famContBlocks:
		// the subject is the hand-over from a block with continuous checks to the next block
		if api.Bound("contblocks_any_tolerance", 0, 1) == 0 {
			for _, x := range w.plan.Blocks {
				api.Assume(x.ToleratedFailures == -1)
			}
		}
	case famContSeqs:
		// 3 sequences one at a time: the launch loop polls the continuous checks between launches
		api.Assume(b.Concurrency == 1)
		if api.Bound("contseqs_any_tolerance", 0, 1) == 0 {
			api.Assume(b.ToleratedFailures == -1)
		}
	}
}

func VerifC01Seq()         { vhRunE(oC01, famSeq) }
func VerifC01PlanGroups()  { vhRunE(oC01, famPlanGroups) }
func VerifC01BlockGroups() { vhRunE(oC01, famBlockGroups) }
func VerifC01Conc()        { vhRunE(oC01, famConc) }

func VerifC01Conc4()    { vhRunE(oC01, famConc4D) }
func VerifC01ContSeqs() { vhRunE(oC01, famContSeqs) }

func VerifC01ContBlocks() { vhRunE(oC01, famContBlocks) }

func VerifC02Conc()       { vhRunE(oC02, famConc) }
func VerifC02ContBlocks() { vhRunE(oC02, famContBlocks) }
func VerifC02ContSeqs()   { vhRunE(oC02, famContSeqs) }
func VerifC02Seq()        { vhRunE(oC02, famSeq) }

func VerifC03Conc() { vhRunE(oC03, famConc) }
func VerifC03Seq()  { vhRunE(oC03, famSeq) }

func VerifC04Conc4()       { vhRunE(oC04, famConc4) }
func VerifC04ContSeqs()    { vhRunE(oC04, famContSeqs) }
func VerifC07ContSeqs()    { vhRunE(oC07, famContSeqs) }
func VerifC04ContBlocks()  { vhRunE(oC04, famContBlocks) }
func VerifC07BothGroups()  { vhRunE(oC07, famBothGroups) }
func VerifC07PlanCont()    { vhRunE(oC07, famPlanCont) }
func VerifC04PlanCont()    { vhRunE(oC04, famPlanCont) }
func VerifC01PlanCont()    { vhRunE(oC01, famPlanCont) }
func VerifC04Seq()         { vhRunE(oC04, famSeq) }
func VerifC04PlanGroups()  { vhRunE(oC04, famPlanGroups) }
func VerifC04BlockGroups() { vhRunE(oC04, famBlockGroups) }
func VerifC04Conc()        { vhRunE(oC04, famConc) }

func VerifC06PlanGroups()  { vhRunE(oC06, famPlanGroups) }
func VerifC06BlockGroups() { vhRunE(oC06, famBlockGroups) }
func VerifC06BothGroups()  { vhRunE(oC06, famBothGroups) }

func VerifC07PlanGroups()  { vhRunE(oC07, famPlanGroups) }
func VerifC07BlockGroups() { vhRunE(oC07, famBlockGroups) }

func VerifC08Seq()         { vhRunE(oC08, famSeq) }
func VerifC08PlanGroups()  { vhRunE(oC08, famPlanGroups) }
func VerifC08BlockGroups() { vhRunE(oC08, famBlockGroups) }
func VerifC08Conc()        { vhRunE(oC08, famConc) }

// VerifEAll runs every oracle at once (development aid).
func VerifEAllSeq() { vhRunE(oC01|oC02|oC03|oC04|oC06|oC07|oC08, famSeq) }

func VerifEAllPlanGroups()  { vhRunE(oC01|oC02|oC03|oC04|oC06|oC07|oC08, famPlanGroups) }
func VerifEAllBlockGroups() { vhRunE(oC01|oC02|oC03|oC04|oC06|oC07|oC08, famBlockGroups) }
func VerifEAllConc()        { vhRunE(oC01|oC02|oC03|oC04|oC06|oC07|oC08, famConc) }

// VerifDbgF04a: plan-level continuous check only; development aid.
func VerifDbgF04a() {
	c := vhCfg(famPlanGroups)
	c.PlanGroups = shape.GroupsNone
	w := vhNewWorld(c, kit.ModeOkFail, oC04)
	w.plan.ContChecks = c.DbgChecks("plan.cont")
	w.mon.Track(w.plan)
	w.vault.Seed(w.plan)
	w.run(false)
	w.finish()
}
