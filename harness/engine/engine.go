//verif:package internal/execute/sm
//verif:uses New, (*States).Start, (*States).Recovery, Data (exported); Data.Plan

package sm

import (
	"fmt"
	"time"

	"github.com/element-of-surprise/coercion/internal/zzverif/api"
	"github.com/element-of-surprise/coercion/internal/zzverif/kit"
	"github.com/element-of-surprise/coercion/internal/zzverif/shape"
	"github.com/element-of-surprise/coercion/workflow"
	"github.com/element-of-surprise/coercion/workflow/context"
	"github.com/element-of-surprise/coercion/workflow/utils/walk"
	"github.com/google/uuid"
	"github.com/gostdlib/base/statemachine"
)

// Oracle selection (one bit per property).
const (
	oC01 = 1 << iota
	oC02
	oC03
	oC04
	oC06
	oC07
	oC08
)

// vhEnter is what the monitor snapshots when a plugin invocation begins.
type vhEnter struct {
	in  *kit.Info
	n   int
	idx int // position in the merged event order
}

// vhWorld is one engine instance with its environment.
type vhWorld struct {
	plan   *workflow.Plan
	mon    *kit.Mon
	vault  *kit.Vault
	states *States
	orc    int

	lastVerdict map[string]int // verdict of the last finished invocation per action
	finished    map[string]int // finished invocations per action
	groupRuns   map[*workflow.Checks]int // completed runs (all actions finished) per check group
	deferredOn  map[string]bool          // scope ("plan" or block name) whose deferred group has started
	returned    bool
	lateEvents  int
	contFailed  map[*workflow.Checks]bool // some completed run of this cont-check group had a failing action
	everFailed  map[*workflow.Checks]bool // some run of this group had a failing action
	seqStarted  map[*workflow.Sequence]bool
	seqFailedN  map[*workflow.Block]int
	firstRunFailed map[*workflow.Checks]bool
}

func vhScope(in *kit.Info) string {
	if in.Block != nil {
		return in.Block.Name
	}
	return "plan"
}

func vhTerminal(s workflow.Status) bool { return s == workflow.Completed || s == workflow.Failed }

// vhRetries is the retry budget given to every action of the next world (0 unless a harness picks another value).
var vhRetries = 0

// vhNewWorld builds a plan of a shape chosen within cfg, as Submit leaves it (ids, pristine states,
// Concurrency >= 1), with symbolic Concurrency and ToleratedFailures on every block.
func vhNewWorld(cfg shape.Cfg, mode int, orc int) *vhWorld {
	api.LogicalClock()
	cfg.WithState = true
	cfg.Req = kit.Req{}
	p := shape.Plan(cfg)
	p.SubmitTime = time.Unix(0, 500_000_000)
	for i, b := range p.Blocks {
		b.Concurrency = api.NondetInt(fmt.Sprintf("conc:b%d", i))
		api.Assume(b.Concurrency >= 1) // Block.Defaults
		b.ToleratedFailures = api.NondetInt(fmt.Sprintf("tol:b%d", i))
	}
	for it := range walk.Plan(p) {
		if a, ok := it.Value.(*workflow.Action); ok {
			a.Timeout = 30 * time.Second
			a.Retries = vhRetries
		}
		if c, ok := it.Value.(*workflow.Checks); ok {
			c.Delay = time.Second
			if !api.Symbolic() {
				c.Delay = time.Millisecond // native replay: ticks are released by the replay controller
			}
		}
	}
	w := &vhWorld{plan: p, orc: orc, lastVerdict: map[string]int{}, finished: map[string]int{}, groupRuns: map[*workflow.Checks]int{},
		deferredOn: map[string]bool{}, contFailed: map[*workflow.Checks]bool{}, everFailed: map[*workflow.Checks]bool{},
		seqStarted: map[*workflow.Sequence]bool{}, seqFailedN: map[*workflow.Block]int{}, firstRunFailed: map[*workflow.Checks]bool{}}
	w.mon = kit.NewMon(mode)
	w.mon.Track(p)
	w.vault = kit.NewVault()
	w.vault.Seed(p)
	w.attach()
	return w
}

// attach creates the engine instance and hooks the monitors.
func (w *vhWorld) attach() {
	reg := kit.NewRegistry(w.mon)
	s, err := New(w.vault, reg)
	api.Assert(err == nil, "sm.New succeeds")
	w.states = s
	w.mon.OnEnter = w.onEnter
	w.mon.OnExit = w.onExit
	w.vault.OnWrite = w.onWrite
}

func (w *vhWorld) has(o int) bool { return w.orc&o != 0 }

// groupPassed: the group exists and its latest completed run had only successful actions.
func (w *vhWorld) groupRanOK(c *workflow.Checks) bool {
	if c == nil {
		return true
	}
	if w.groupRuns[c] == 0 {
		return false
	}
	for _, a := range c.Actions {
		if w.lastVerdict[a.Name] != kit.VOk {
			return false
		}
	}
	return true
}

func (w *vhWorld) inflightIn(b *workflow.Block, seqOnly bool) int {
	n := 0
	for _, in := range w.mon.ByID {
		if in.Block != b {
			continue
		}
		if seqOnly && in.Seq == nil {
			continue
		}
		n += w.mon.Inflight[in.Key]
	}
	return n
}

func (w *vhWorld) onEnter(in *kit.Info, c *kit.Call) {
	if w.returned {
		w.lateEvents++
		api.Fact("i:late", "plugin "+in.Key)
	}
	p := w.plan
	if in.Seq != nil {
		w.seqStarted[in.Seq] = true
	}
	if w.has(oC08) {
		im := w.vault.Img[in.Action.ID]
		api.Assert(im.Status == workflow.Running, "C08: action durably Running before its plugin is invoked")
		api.Assert(len(im.Attempts) == len(in.Action.Attempts), "C08: every earlier attempt durable before the next invocation")
		if in.Seq != nil && in.ActI > 0 {
			prev := in.Seq.Actions[in.ActI-1]
			pim := w.vault.Img[prev.ID]
			api.Assert(pim.Status == workflow.Completed && len(pim.Attempts) > 0 && !pim.Attempts[len(pim.Attempts)-1].HasErr,
				"C08: previous action durably Completed with its result before the next action begins")
		}
	}
	if w.has(oC01) {
		api.Assert(w.mon.Inflight[in.Key] == 1, "C01: an action's invocations never overlap")
		if in.Seq != nil {
			for j := 0; j < in.ActI; j++ {
				prev := in.Seq.Actions[j]
				api.Assert(w.finished[prev.Name] > 0 && w.lastVerdict[prev.Name] == kit.VOk && w.mon.Inflight[prev.Name] == 0,
					"C01: a sequence action begins only after the previous action finished successfully")
			}
			// blocks in declared order, one at a time
			for bi := 0; bi < in.BlockI; bi++ {
				eb := p.Blocks[bi]
				api.Assert(w.vault.Img[eb.ID].Status == workflow.Completed, "C01: a block starts only after every earlier block is durably Completed")
				api.Assert(w.inflightIn(eb, false) == 0, "C01: nothing of an earlier block is in flight when a later block runs")
			}
			for bi := in.BlockI + 1; bi < len(p.Blocks); bi++ {
				api.Assert(w.inflightIn(p.Blocks[bi], false) == 0, "C01: blocks run one at a time")
			}
			api.Assert(w.groupRanOK(p.PreChecks), "C01: no sequence action before the plan's pre-checks passed")
			api.Assert(w.groupRanOK(in.Block.PreChecks), "C01: no sequence action before the block's pre-checks passed")
		}
		if in.Checks != nil && in.Group == shape.GPost {
			if in.Block != nil {
				api.Assert(w.inflightIn(in.Block, true) == 0, "C01: block post-checks begin only after every started sequence finished")
			} else {
				for _, b := range p.Blocks {
					api.Assert(w.inflightIn(b, false) == 0, "C01: plan post-checks begin only after every block finished")
				}
			}
		}
		if in.Checks != nil && in.Group == shape.GDeferred {
			var post *workflow.Checks
			if in.Block != nil {
				post = in.Block.PostChecks
				api.Assert(w.inflightIn(in.Block, true) == 0, "C01: deferred checks begin only after the scope's sequences finished")
			} else {
				post = p.PostChecks
			}
			if post != nil {
				for _, a := range post.Actions {
					api.Assert(w.mon.Inflight[a.Name] == 0, "C01: deferred checks begin only after the post-checks finished")
				}
			}
		}
		// nothing of a scope (other than its continuous checks, which are drained afterwards by design) begins after its deferred checks
		if in.Group != shape.GDeferred && in.Group != shape.GCont {
			api.Assert(!w.deferredOn[vhScope(in)], "C01: deferred checks come last in their scope")
			if in.Block != nil {
				api.Assert(!w.deferredOn["plan"], "C01: nothing of a block begins after the plan's deferred checks")
			}
		}
	}
	if in.Group == shape.GDeferred {
		w.deferredOn[vhScope(in)] = true
	}
	if w.has(oC06) {
		// bypass: once every bypass action of a scope succeeded nothing else of that scope is invoked
		if in.Group != shape.GBypass {
			if p.BypassChecks != nil && w.groupRuns[p.BypassChecks] > 0 {
				api.Assert(!w.groupRanOK(p.BypassChecks), "C06: nothing else is invoked in a plan whose bypass checks all succeeded")
			}
			if in.Block != nil && in.Block.BypassChecks != nil && w.groupRuns[in.Block.BypassChecks] > 0 {
				api.Assert(!w.groupRanOK(in.Block.BypassChecks), "C06: nothing else is invoked in a block whose bypass checks all succeeded")
			}
		}
		if in.Seq != nil {
			api.Assert(w.groupRanOK(p.PreChecks), "C06: no sequence action after a failed plan pre-check")
			api.Assert(w.groupRanOK(in.Block.PreChecks), "C06: no sequence action after a failed block pre-check")
			// only the *initial* run gates the sequences: a later run may fail after a sequence was admitted
			api.Assert(w.initialContPassed(p.ContChecks), "C06: no sequence action unless the initial run of the plan's continuous checks passed")
			api.Assert(w.initialContPassed(in.Block.ContChecks), "C06: no sequence action unless the initial run of the block's continuous checks passed")
		}
	}
	if w.has(oC02) && in.Seq != nil {
		// sequences of this block with an action in flight
		n := 0
		for _, s := range in.Block.Sequences {
			f := 0
			for _, a := range s.Actions {
				f += w.mon.Inflight[a.Name]
			}
			if f > 0 {
				n++
			}
		}
		api.Assert(n <= in.Block.Concurrency, "C02: sequences in flight never exceed the block's Concurrency")
		if n > 1 {
			api.Reach("two sequences in flight")
		}
		for _, b := range p.Blocks {
			if b != in.Block {
				api.Assert(w.inflightIn(b, true) == 0, "C02: sequences of two blocks are never in flight together")
			}
		}
	}
	if w.has(oC03) && in.Seq != nil {
		// a failed block: nothing of a later block is invoked
		for bi := 0; bi < in.BlockI; bi++ {
			api.Assert(w.vault.Img[p.Blocks[bi].ID].Status != workflow.Failed, "C03: after a Failed block no later block invokes anything")
		}
	}
}

// initialContPassed: the group is absent, or its first completed run had only successful actions.
func (w *vhWorld) initialContPassed(c *workflow.Checks) bool {
	if c == nil {
		return true
	}
	return w.groupRuns[c] >= 1 && !w.firstRunFailed[c]
}

// initialContFailed: the first completed run of the group had a failing action.
func (w *vhWorld) initialContFailed(c *workflow.Checks) bool {
	if c == nil {
		return false
	}
	return w.firstRunFailed[c]
}

func (w *vhWorld) onExit(in *kit.Info, c *kit.Call) {
	if w.returned {
		w.lateEvents++
	}
	w.finished[in.Key]++
	w.lastVerdict[in.Key] = c.Verdict
	if in.Checks != nil {
		// a run of the group is complete when every action finished the same number of times
		done := true
		n := w.finished[in.Key]
		failed := false
		for _, a := range in.Checks.Actions {
			if w.finished[a.Name] < n || w.mon.Inflight[a.Name] > 0 {
				done = false
			}
			if w.lastVerdict[a.Name] != kit.VOk {
				failed = true
			}
		}
		if done {
			w.groupRuns[in.Checks]++
			if failed {
				w.everFailed[in.Checks] = true
				if w.groupRuns[in.Checks] == 1 {
					w.firstRunFailed[in.Checks] = true
				}
			}
		}
	}
	if in.Seq != nil && c.Verdict != kit.VOk {
		w.seqFailedN[in.Block]++
	}
}

func (w *vhWorld) onWrite(v *kit.Vault, id uuid.UUID, old *kit.Image, wr *kit.Write) {
	if w.returned {
		w.lateEvents++
		api.Fact("i:late", "write "+wr.Img.Name)
	}
	if w.has(oC08) && old != nil {
		k := wr.Img.Kind
		isSeqAction := false
		if k == workflow.OTAction {
			if in := w.mon.ByID[id]; in != nil && in.Seq != nil {
				isSeqAction = true
			}
		}
		if k == workflow.OTBlock || k == workflow.OTSequence || isSeqAction {
			if vhTerminal(old.Status) {
				api.Assert(wr.Img.Status == old.Status, "C08: a block, sequence or sequence action read as Completed/Failed is never written in another status")
			}
		}
	}
}

// run drives the plan from first through the real state machine to the end and returns Run's error.
func (w *vhWorld) run(recovery bool) error {
	next := w.states.Start
	if recovery {
		next = w.states.Recovery
	}
	req := statemachine.Request[Data]{Ctx: context.Background(), Data: Data{Plan: w.plan}, Next: next}
	_, err := statemachine.Run("plan", req)
	w.returned = true
	return err
}

// ---------- final-state oracles ----------

func (w *vhWorld) img(id uuid.UUID) *kit.Image { return w.vault.Img[id] }

// checkTerminalConsistent is C04's predicate over the durable image (also used by C10 after recovery).
func (w *vhWorld) checkTerminalConsistent(tag string) {
	p := w.plan
	pim := w.img(p.ID)
	api.Assert(vhTerminal(pim.Status), tag+": stored plan is Completed or Failed when waiting returns")
	for it := range walk.Plan(p) {
		var id uuid.UUID
		switch x := it.Value.(type) {
		case *workflow.Plan:
			id = x.ID
		case *workflow.Checks:
			id = x.ID
		case *workflow.Block:
			id = x.ID
		case *workflow.Sequence:
			id = x.ID
		case *workflow.Action:
			id = x.ID
		}
		im := w.img(id)
		api.Assert(im.Status != workflow.Running, tag+": nothing in the stored plan is still Running")
		if vhTerminal(im.Status) {
			api.Assert(!im.End.Before(im.Start), tag+": start<=end ("+im.Kind.String()+")")
		}
	}
	api.Assert(w.mon.InflightTotal() == 0, tag+": no plugin still executing")
	bypassed := p.BypassChecks != nil && w.img(p.BypassChecks.ID).Status == workflow.Completed
	if pim.Status == workflow.Completed && !bypassed {
		for _, b := range p.Blocks {
			api.Assert(w.img(b.ID).Status == workflow.Completed, tag+": a Completed plan has only Completed blocks")
		}
		for i, g := range shape.PlanGroups(p) {
			if g != nil && i != shape.GBypass {
				api.Assert(w.img(g.ID).Status != workflow.Failed, tag+": a Completed plan has no failed check group")
			}
		}
	}
	api.Assert((pim.Reason == workflow.FRUnknown) == (pim.Status == workflow.Completed), tag+": failure reason is unset exactly when the plan Completed")
	for _, b := range p.Blocks {
		for _, s := range b.Sequences {
			sim := w.img(s.ID)
			switch sim.Status {
			case workflow.Completed:
				for _, a := range s.Actions {
					api.Assert(w.img(a.ID).Status == workflow.Completed, tag+": a Completed sequence has only Completed actions")
				}
			case workflow.Failed:
				failed := 0
				seenFailed := false
				for _, a := range s.Actions {
					aim := w.img(a.ID)
					if seenFailed {
						api.Assert(aim.Status == workflow.NotStarted && len(aim.Attempts) == 0, tag+": actions after the failed one are untouched")
					}
					if aim.Status == workflow.Failed {
						failed++
						seenFailed = true
					} else if !seenFailed {
						api.Assert(aim.Status == workflow.Completed, tag+": actions before the failed one are Completed")
					}
				}
				api.Assert(failed == 1, tag+": a Failed sequence has exactly one Failed action")
			}
		}
	}
	for _, in := range w.mon.ByID {
		aim := w.img(in.Action.ID)
		if len(aim.Attempts) > 0 && vhTerminal(aim.Status) {
			last := aim.Attempts[len(aim.Attempts)-1]
			api.Assert((aim.Status == workflow.Completed) == !last.HasErr, tag+": an action is Completed exactly when its final attempt has no error")
		}
		if aim.Status == workflow.Completed {
			api.Assert(len(aim.Attempts) > 0, tag+": a Completed action has an attempt")
		}
	}
}

// checkReason: the failure reason names a stage that really failed (membership, not priority).
func (w *vhWorld) checkReason() {
	p := w.plan
	pim := w.img(p.ID)
	if pim.Status != workflow.Failed {
		return
	}
	ok := false
	switch pim.Reason {
	case workflow.FRPreCheck:
		ok = p.PreChecks != nil && w.everFailed[p.PreChecks]
	case workflow.FRContCheck:
		ok = p.ContChecks != nil && w.everFailed[p.ContChecks]
	case workflow.FRPostCheck:
		ok = p.PostChecks != nil && w.everFailed[p.PostChecks]
	case workflow.FRDeferredCheck:
		ok = p.DeferredChecks != nil && w.everFailed[p.DeferredChecks]
	case workflow.FRBlock:
		for _, b := range p.Blocks {
			if w.img(b.ID).Status == workflow.Failed {
				ok = true
			}
		}
	}
	api.Assert(ok, "C04: the failure reason names a stage that actually failed")
}

// checkAfterReturn: nothing moves once the run has returned (C04 immutability / quiescence).
func (w *vhWorld) checkAfterReturn() {
	api.Quiesce()
	api.Assert(w.lateEvents == 0, "C04: nothing is written or invoked for the plan after waiting returned")
}

// checkC03 evaluates the threshold clauses on the finished run.
func (w *vhWorld) checkC03() { w.checkC03x(false) }

// checkC03x: recovered=true skips the clauses that count what *this* process started.
func (w *vhWorld) checkC03x(recovered bool) {
	p := w.plan
	laterMustNotRun := false
	for _, b := range p.Blocks {
		bim := w.img(b.ID)
		started, failed := 0, 0
		firstExceed := -1 // index of the sequence whose failure exceeded the tolerance (Concurrency 1)
		for si, s := range b.Sequences {
			if w.seqStarted[s] {
				started++
			}
			if w.img(s.ID).Status == workflow.Failed {
				failed++
				_ = si
			}
		}
		if laterMustNotRun {
			api.Assert(started == 0, "C03: after a Failed block no later block invokes anything")
			continue
		}
		if recovered && w.vault.Img[b.ID].Status == workflow.Failed {
			// the block may have been Failed before the crash by a check of the first process: only the count clause below applies
			_ = started
		}
		bypassed := b.BypassChecks != nil && w.img(b.BypassChecks.ID).Status == workflow.Completed
		checkFailed := false
		for i, g := range shape.BlockGroups(b) {
			if g != nil && i != shape.GBypass && w.everFailed[g] {
				checkFailed = true
			}
		}
		entered := bim.Status != workflow.NotStarted
		if entered && !bypassed {
			tol := b.ToleratedFailures
			api.Assert(tol < 0 || failed <= tol || failed-tol <= b.Concurrency, "C03: at most ToleratedFailures+Concurrency sequences fail")
			exceeded := tol >= 0 && failed > tol
			if !checkFailed {
				api.Assert((bim.Status == workflow.Failed) == exceeded, "C03: a block is Failed exactly when its failed sequences exceed the tolerance (no check failed)")
				if bim.Status == workflow.Failed {
					api.Reach("block failed by tolerance")
				} else if failed > 0 {
					api.Reach("failures tolerated")
				}
			} else {
				api.Assert(bim.Status == workflow.Failed, "C03: a block with a failed check is Failed")
			}
			if b.Concurrency == 1 && tol >= 0 && !checkFailed && !recovered {
				// execution stops exactly at the failure that exceeds the tolerance
				nf := 0
				for si, s := range b.Sequences {
					if w.img(s.ID).Status == workflow.Failed {
						nf++
						if nf == tol+1 && firstExceed < 0 {
							firstExceed = si
						}
					}
				}
				if firstExceed >= 0 {
					api.Assert(started == firstExceed+1, "C03: with Concurrency 1 execution stops exactly at the failure that exceeds the tolerance")
					api.Reach("stopped at the exceeding failure")
				} else {
					api.Assert(started == len(b.Sequences), "C03: with Concurrency 1 every sequence starts while the tolerance holds")
				}
			}
		}
		if bim.Status == workflow.Failed {
			laterMustNotRun = true
			api.Assert(w.img(p.ID).Status == workflow.Failed, "C03: the plan ends Failed after a Failed block")
		}
	}
}

// checkC06Final: outcome clauses of bypass / pre-check gating.
func (w *vhWorld) checkC06Final() {
	p := w.plan
	if p.BypassChecks != nil && w.groupRuns[p.BypassChecks] > 0 && w.groupRanOK(p.BypassChecks) {
		api.Assert(w.img(p.ID).Status == workflow.Completed, "C06: a plan whose bypass checks all succeeded ends Completed")
		api.Reach("plan bypassed")
	}
	if p.BypassChecks != nil && w.everFailed[p.BypassChecks] {
		api.Reach("plan bypass failed, plan ran")
		// the bypass failure alone never fails the plan
		other := false
		for i, g := range shape.PlanGroups(p) {
			if g != nil && i != shape.GBypass && w.everFailed[g] {
				other = true
			}
		}
		for _, b := range p.Blocks {
			if w.img(b.ID).Status == workflow.Failed {
				other = true
			}
		}
		if !other {
			api.Assert(w.img(p.ID).Status == workflow.Completed, "C06: a bypass failure alone never fails the plan")
		}
	}
	if p.PreChecks != nil && w.everFailed[p.PreChecks] {
		api.Assert(w.img(p.ID).Status == workflow.Failed, "C06: a failed plan pre-check fails the plan")
		api.Reach("plan pre-check failed")
	}
	if p.ContChecks != nil && w.firstRunFailed[p.ContChecks] {
		api.Assert(w.img(p.ID).Status == workflow.Failed, "C06: a failed initial continuous-check run fails the plan")
		api.Reach("plan initial cont-check failed")
	}
	for _, b := range p.Blocks {
		bim := w.img(b.ID)
		if b.BypassChecks != nil && w.groupRuns[b.BypassChecks] > 0 && w.groupRanOK(b.BypassChecks) {
			api.Assert(bim.Status == workflow.Completed, "C06: a block whose bypass checks all succeeded ends Completed")
			api.Reach("block bypassed")
		}
		if b.PreChecks != nil && w.everFailed[b.PreChecks] {
			api.Assert(bim.Status == workflow.Failed, "C06: a failed block pre-check fails the block")
			api.Reach("block pre-check failed")
		}
		if b.ContChecks != nil && w.firstRunFailed[b.ContChecks] {
			api.Assert(bim.Status == workflow.Failed, "C06: a failed initial continuous-check run fails the block")
			api.Reach("block initial cont-check failed")
		}
		if b.BypassChecks != nil && w.everFailed[b.BypassChecks] {
			other := false
			for i, g := range shape.BlockGroups(b) {
				if g != nil && i != shape.GBypass && w.everFailed[g] {
					other = true
				}
			}
			if w.seqFailedN[b] > 0 {
				other = true
			}
			if p.ContChecks != nil && w.everFailed[p.ContChecks] {
				other = true // a failing plan-level continuous check fails the block that is running
			}
			if !other && bim.Status != workflow.NotStarted {
				api.Assert(bim.Status == workflow.Completed, "C06: a bypass failure alone never fails the block")
			}
		}
	}
}

// checkC07Final: continuous-check failures are never lost; deferred checks ran exactly once per entered scope.
func (w *vhWorld) checkC07Final() {
	p := w.plan
	pim := w.img(p.ID)
	planBypassed := p.BypassChecks != nil && w.img(p.BypassChecks.ID).Status == workflow.Completed
	if p.ContChecks != nil && w.everFailed[p.ContChecks] {
		api.Assert(pim.Status == workflow.Failed, "C07: a failed run of the plan's continuous checks fails the plan")
		api.Reach("plan cont-check failed")
		only := true
		for i, g := range shape.PlanGroups(p) {
			if g != nil && i != shape.GCont && i != shape.GBypass && w.everFailed[g] {
				only = false
			}
		}
		for _, b := range p.Blocks {
			if w.img(b.ID).Status == workflow.Failed {
				only = false
			}
		}
		if only {
			api.Assert(pim.Reason == workflow.FRContCheck, "C07: the plan's reason is ContCheck when only the continuous check failed")
		}
	}
	if p.DeferredChecks != nil {
		runs := w.groupRuns[p.DeferredChecks]
		if planBypassed {
			api.Assert(runs == 0, "C07: deferred checks of a bypassed plan do not run")
		} else {
			api.Assert(runs == 1, "C07: the plan's deferred checks run exactly once")
			api.Reach("plan deferred checks ran")
		}
		if w.everFailed[p.DeferredChecks] {
			api.Assert(pim.Status == workflow.Failed, "C07: a failed deferred check fails the plan")
		}
	}
	for _, b := range p.Blocks {
		bim := w.img(b.ID)
		bypassed := b.BypassChecks != nil && w.img(b.BypassChecks.ID).Status == workflow.Completed
		entered := bim.Status != workflow.NotStarted
		if b.ContChecks != nil && w.everFailed[b.ContChecks] {
			api.Assert(bim.Status == workflow.Failed, "C07: a failed run of the block's continuous checks fails the block")
			api.Reach("block cont-check failed")
		}
		if b.DeferredChecks != nil {
			runs := w.groupRuns[b.DeferredChecks]
			switch {
			case !entered || bypassed:
				api.Assert(runs == 0, "C07: deferred checks of a bypassed or never entered block do not run")
			default:
				api.Assert(runs == 1, "C07: the block's deferred checks run exactly once")
				api.Reach("block deferred checks ran")
			}
			if w.everFailed[b.DeferredChecks] {
				api.Assert(bim.Status == workflow.Failed, "C07: a failed deferred check fails the block")
			}
		}
	}
}

// finish runs the end-of-run oracles selected for this world.
func (w *vhWorld) finish() {
	if w.has(oC04) {
		w.checkTerminalConsistent("C04")
		w.checkReason()
	}
	if w.has(oC08) {
		pim := w.img(w.plan.ID)
		api.Assert(vhTerminal(pim.Status), "C08: the terminal state of the plan is durable before any waiter is released")
	}
	if w.has(oC03) {
		w.checkC03()
	}
	if w.has(oC06) {
		w.checkC06Final()
	}
	if w.has(oC07) {
		w.checkC07Final()
	}
	if w.has(oC04) {
		w.checkAfterReturn()
	}
	if w.img(w.plan.ID).Status == workflow.Failed {
		api.Reach("plan failed")
	} else {
		api.Reach("plan completed")
	}
}
