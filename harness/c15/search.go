//verif:package workflow/storage/sqlite
//verif:uses (*Vault).{Create,Delete,Exists,Search,List,UpdatePlan} (exported)

package sqlite

import (
	"fmt"

	"github.com/element-of-surprise/coercion/internal/zzverif/api"
	"github.com/element-of-surprise/coercion/workflow"
	"github.com/element-of-surprise/coercion/workflow/storage"
	"github.com/google/uuid"
	"github.com/gostdlib/base/context"
)

// vhStore creates n small plans with symbolic status and submit time and a group id picked from a pool of two.
func vhStore(v *Vault, n int) ([]*workflow.Plan, [2]uuid.UUID) {
	groups := [2]uuid.UUID{workflow.NewV7(), workflow.NewV7()}
	var plans []*workflow.Plan
	for i := 0; i < n; i++ {
		tag := fmt.Sprintf("p%d.", i)
		p := vhStoredX(tag, true, true)
		p.State.Status = workflow.Status(api.NondetInt(tag + "status"))
		p.SubmitTime = vhT(tag + "submit")
		api.Assume(!p.SubmitTime.IsZero())
		switch api.Choose(tag+"group", 3) {
		case 1:
			p.GroupID = groups[0]
		case 2:
			p.GroupID = groups[1]
		}
		api.Assert(v.Create(context.Background(), p) == nil, "Create of a well-formed plan succeeds")
		plans = append(plans, p)
	}
	return plans, groups
}

func vhDrain(ch chan storage.Stream[storage.ListResult]) ([]storage.ListResult, bool) {
	var out []storage.ListResult
	sawErr := false
	for r := range ch { // a stream that is never closed is a deadlock
		if r.Err != nil {
			sawErr = true
			continue
		}
		out = append(out, r.Result)
	}
	return out, sawErr
}

func vhHas(rs []storage.ListResult, id uuid.UUID) int {
	n := 0
	for _, r := range rs {
		if r.ID == id {
			n++
		}
	}
	return n
}

func vhOrdered(rs []storage.ListResult) bool {
	ok := true
	for i := 1; i < len(rs); i++ {
		ok = api.IteBool(rs[i].SubmitTime.After(rs[i-1].SubmitTime), false, ok)
	}
	return ok
}

// VerifC15Exists: Exists is true exactly for plans that were created and not deleted.
func VerifC15Exists() {
	v, _ := vhVault()
	ctx := context.Background()
	plans, _ := vhStore(v, 1+api.Choose("plans", 2))
	del := api.Choose("delete_first", 2) == 1
	if del {
		api.Assert(v.Delete(ctx, plans[0].ID) == nil, "Delete of a stored plan succeeds")
	}
	for i, p := range plans {
		ex, err := v.Exists(ctx, p.ID)
		api.Assert(err == nil, "C15: Exists does not fail")
		api.Assert(ex == !(del && i == 0), "C15: Exists is true exactly for plans created and not deleted")
	}
	ex, err := v.Exists(ctx, workflow.NewV7())
	api.Assert(err == nil && !ex, "C15: Exists is false for an id never created")
	api.Reach("exists explored")
}

// VerifC15Search: for every store content and every filter combination, a plan is returned iff it matches all filters.
func VerifC15Search() {
	v, _ := vhVault()
	ctx := context.Background()
	n := 1 + api.Choose("plans", api.Bound("plans", 2, 3))
	plans, groups := vhStore(v, n)
	var f storage.Filters
	// ByIDs: none, one stored id, one stored + one unknown id
	switch api.Choose("by_ids", 3) {
	case 1:
		f.ByIDs = []uuid.UUID{plans[0].ID}
	case 2:
		f.ByIDs = []uuid.UUID{workflow.NewV7(), plans[n-1].ID}
	}
	switch api.Choose("by_groups", 3) {
	case 1:
		f.ByGroupIDs = []uuid.UUID{groups[0]}
	case 2:
		f.ByGroupIDs = []uuid.UUID{groups[0], groups[1]}
	}
	switch api.Choose("by_status", 3) {
	case 1:
		f.ByStatus = []workflow.Status{workflow.Status(api.NondetInt("want_status0"))}
	case 2:
		f.ByStatus = []workflow.Status{workflow.Status(api.NondetInt("want_status0")), workflow.Status(api.NondetInt("want_status1"))}
	}
	if len(f.ByIDs)+len(f.ByGroupIDs)+len(f.ByStatus) == 0 {
		ch, err := v.Search(ctx, f)
		api.Assert(err != nil && ch == nil, "C15: a search without any filter is rejected")
		return
	}
	ch, err := v.Search(ctx, f)
	api.Assert(err == nil && ch != nil, "C15: a search with valid filters starts")
	if err != nil || ch == nil {
		return
	}
	rs, sawErr := vhDrain(ch)
	api.Assert(!sawErr, "C15: the result stream carries no error")
	for _, p := range plans {
		idOK := len(f.ByIDs) == 0
		for _, id := range f.ByIDs {
			if id == p.ID {
				idOK = true
			}
		}
		gOK := len(f.ByGroupIDs) == 0
		for _, g := range f.ByGroupIDs {
			if g == p.GroupID {
				gOK = true
			}
		}
		sOK := len(f.ByStatus) == 0
		for _, s := range f.ByStatus {
			sOK = api.IteBool(p.State.Status == s, true, sOK)
		}
		want := api.IteBool(sOK, idOK && gOK, false)
		got := vhHas(rs, p.ID)
		api.Assert(api.IteBool(want, got == 1, got == 0), "C15: Search returns exactly the plans matching all given filters")
	}
	api.Assert(vhOrdered(rs), "C15: Search results are ordered newest submission first")
	if len(rs) > 1 {
		api.Reach("search returned several plans")
	}
	if len(f.ByStatus) == 2 {
		api.Reach("two statuses searched")
	}
	if len(f.ByIDs) > 0 || len(f.ByGroupIDs) > 0 {
		api.Reach("searched by ids or groups")
	}
}

// VerifC15Running: every plan durably Running is returned by the status search crash recovery relies on.
func VerifC15Running() {
	v, _ := vhVault()
	ctx := context.Background()
	plans, _ := vhStore(v, 1+api.Choose("plans", 2))
	// one plan's status is changed through UpdatePlan after Create
	upd := plans[0]
	upd.State.Status = workflow.Status(api.NondetInt("updated_status"))
	api.Assert(v.UpdatePlan(ctx, upd) == nil, "UpdatePlan succeeds")
	ch, err := v.Search(ctx, storage.Filters{ByStatus: []workflow.Status{workflow.Running}})
	api.Assert(err == nil && ch != nil, "C15: the status search starts")
	if err != nil || ch == nil {
		return
	}
	rs, sawErr := vhDrain(ch)
	api.Assert(!sawErr, "C15: the result stream carries no error")
	for _, p := range plans {
		running := p.State.Status == workflow.Running
		got := vhHas(rs, p.ID)
		api.Assert(api.IteBool(running, got == 1, got == 0), "C15: exactly the plans durably Running are returned by a Running status search")
	}
	api.Reach("running search explored")
}

// VerifC15List: List returns all plans up to the limit, newest submission first, and closes its stream.
func VerifC15List() {
	v, _ := vhVault()
	ctx := context.Background()
	n := api.Choose("plans", api.Bound("plans_list", 3, 4))
	plans, _ := vhStore(v, n)
	limit := api.NondetInt("limit")
	ch, err := v.List(ctx, limit)
	api.Assert(err == nil && ch != nil, "C15: List starts")
	if err != nil || ch == nil {
		return
	}
	rs, sawErr := vhDrain(ch)
	api.Assert(!sawErr, "C15: the result stream carries no error")
	want := n
	if limit > 0 && limit < n {
		want = limit
	}
	api.Assert(len(rs) == want, "C15: List returns all plans up to the limit")
	api.Assert(vhOrdered(rs), "C15: List results are ordered newest submission first")
	for _, p := range plans {
		api.Assert(vhHas(rs, p.ID) <= 1, "C15: List returns a plan at most once")
	}
	// with a limit, the plans returned are the newest ones: nothing left out is newer than something returned
	for _, p := range plans {
		if vhHas(rs, p.ID) == 0 {
			for _, r := range rs {
				api.Assert(!p.SubmitTime.After(r.SubmitTime), "C15: List keeps the newest submissions when the limit cuts the result")
			}
		}
	}
	api.Assert(!api.SQLConnTaken(), "C15: List returns its connection once the stream is closed")
	if want < n {
		api.Reach("limit cut the result")
	}
	if n > 1 {
		api.Reach("several plans listed")
	}
}
