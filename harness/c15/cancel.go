//verif:package workflow/storage/sqlite
//verif:uses (*Vault).{Create,Search,List} (exported)

package sqlite

import (
	stdctx "context"
	"fmt"
	"time"

	"github.com/element-of-surprise/coercion/internal/zzverif/api"
	"github.com/element-of-surprise/coercion/workflow"
	"github.com/element-of-surprise/coercion/workflow/storage"
	"github.com/google/uuid"
	"github.com/gostdlib/base/context"
)

// VerifC15Cancel: "every result stream is eventually closed" when the query ends in an error. The one failure that
// the real SQLite reproduces on demand is a caller that cancels its context while rows are still pending: the
// producer's select then takes the error path at a scheduler- (and select-) chosen row. The consumer keeps draining
// until the stream is closed: a stream that is never closed is a deadlock. A stream cut short must say so with an
// error item, and the pooled connection must be back afterwards.
func VerifC15Cancel() {
	v, _ := vhVault()
	n := 2 + api.Choose("plans", 2)
	// store content is concrete here (distinct submit times, one status): what is explored is where the cancellation
	// falls relative to the rows, not what the rows hold
	var plans []*workflow.Plan
	for i := 0; i < n; i++ {
		p := vhStoredX(fmt.Sprintf("p%d.", i), true, true)
		p.SubmitTime = time.Unix(0, int64(1000+i))
		if i == 0 {
			p.State.Status = workflow.Status(api.NondetInt("p0.status"))
		}
		api.Assert(v.Create(context.Background(), p) == nil, "Create of a well-formed plan succeeds")
		plans = append(plans, p)
	}
	ctx, cancel := stdctx.WithCancel(context.Background())
	var ch chan storage.Stream[storage.ListResult]
	var err error
	wantN := n // rows the uncancelled query returns (a term where it depends on solver variables)
	if api.Choose("api", 2) == 0 {
		var ids []uuid.UUID
		for _, p := range plans {
			ids = append(ids, p.ID)
		}
		// the first plan's stored status and the status searched for are solver variables
		want := workflow.Status(api.NondetInt("want_status"))
		wantN = 0
		for _, p := range plans {
			wantN += api.IteInt(p.State.Status == want, 1, 0)
		}
		ch, err = v.Search(ctx, storage.Filters{ByIDs: ids, ByStatus: []workflow.Status{want}})
	} else {
		limit := api.NondetInt("limit")
		wantN = api.IteInt(limit > 0, api.IteInt(limit < n, limit, n), n)
		ch, err = v.List(ctx, limit)
	}
	api.Assert(err == nil && ch != nil, "C15: the query starts")
	if err != nil || ch == nil {
		cancel()
		return
	}
	if api.Symbolic() {
		api.Yield("cancel")
	} else {
		time.Sleep(50 * time.Millisecond) // let the producer fill the one-slot buffer and block on the next row
	}
	cancel()
	rs, sawErr := vhDrain(ch) // must terminate
	api.Assert(len(rs) <= n, "C15: a plan is returned at most once")
	api.Assert(api.IteBool(len(rs) == wantN, true, sawErr), "C15: a stream cut short by cancellation carries an error item")
	api.Assert(!api.SQLConnTaken(), "C15: the connection is returned once the stream is closed")
	if sawErr {
		api.Reach("stream ended by cancellation and was closed")
	} else {
		api.Reach("stream completed before the cancellation was seen")
	}
}
