//verif:package .
//verif:uses New, (*Workstream).{Submit,Start,Wait,Plan,Status} (all exported)

package coercion

import (
	"time"

	"github.com/element-of-surprise/coercion/internal/zzverif/api"
	"github.com/element-of-surprise/coercion/internal/zzverif/kit"
	"github.com/element-of-surprise/coercion/workflow"
	"github.com/element-of-surprise/coercion/workflow/context"
	"github.com/google/uuid"
)

func vhPlan() *workflow.Plan {
	return &workflow.Plan{Name: "plan", Descr: "plan", Blocks: []*workflow.Block{{Name: "b0", Descr: "b0",
		Sequences: []*workflow.Sequence{{Name: "b0.s0", Descr: "b0.s0", Actions: []*workflow.Action{{Name: "b0.s0.a0", Descr: "a", Plugin: "action", Req: kit.Req{}}}}}}}}
}

// VerifC12History: every sequence of at most L public API calls on known and unknown plan ids.
// Nothing may panic, exit or hang; a plan is executed at most once.
func VerifC12History() {
	api.LogicalClock()
	mon := kit.NewMon(kit.ModeOkFail)
	vault := kit.NewVault()
	reg := kit.NewRegistry(mon)
	ctx := context.Background()
	ws, err := New(ctx, reg, vault)
	api.Assert(err == nil && ws != nil, "New succeeds")
	L := api.Bound("history_len", 3, 4)
	var known uuid.UUID
	have := false
	started := false
	hist := ""
	for i := 0; i < L; i++ {
		op := api.Choose("op", 5)
		id := workflow.NewV7()
		unknown := true
		if have && op != 0 && api.Choose("known_id", 2) == 1 {
			id, unknown = known, false
		}
		switch op {
		case 0: // Submit
			hist += "Submit;"
			p := vhPlan()
			sid, serr := ws.Submit(ctx, p)
			api.Assert(serr == nil && sid != uuid.Nil, "Submit of a well-formed plan succeeds")
			if serr == nil {
				mon.Track(p)
				if !have {
					known, have = sid, true
				}
			}
		case 1:
			hist += "Start;"
			serr := ws.Start(ctx, id)
			if unknown {
				api.Assert(serr != nil, "Start of an unknown id is an error")
			} else {
				if started {
					api.Assert(serr != nil, "starting a plan that is already running or has finished is rejected")
				} else {
					api.Assert(serr == nil, "Start of a submitted plan succeeds")
				}
				if serr == nil {
					started = true
				}
			}
		case 2:
			hist += "Wait;"
			p, werr := ws.Wait(ctx, id)
			if unknown {
				api.Assert(werr != nil && p == nil, "Wait on an unknown id is an error, never an empty plan")
			} else {
				api.Assert(werr == nil && p != nil, "Wait on a known id returns the plan")
				if started && p != nil {
					api.Assert(p.State.Status == workflow.Completed || p.State.Status == workflow.Failed, "Wait on a started plan returns a terminal plan")
					api.Reach("waited for a started plan")
				}
			}
		case 3:
			hist += "Plan;"
			p, perr := ws.Plan(ctx, id)
			api.Assert((perr != nil) == unknown && (p == nil) == unknown, "Plan returns the plan exactly for known ids")
		case 4:
			hist += "Status;"
			n := 0
			for r := range ws.Status(ctx, id, time.Second) {
				n++
				api.Assert((r.Err != nil) == unknown, "Status reports an error exactly for unknown ids")
				break
			}
			api.Assert(n == 1, "Status yields a result")
		}
		api.Fact("i:history", hist)
	}
	if have {
		ws.Wait(ctx, known)
	}
	api.Quiesce()
	api.Assert(mon.Calls["b0.s0.a0"] <= 1, "a submitted plan is executed at most once")
	if started {
		api.Reach("a plan was started")
	}
}
