//verif:package internal/execute
//verif:uses Plans{registry,store,states,runner,maxLastUpdate,maxSubmit,recovery} (unexported fields), (*Plans).recover, New, WithNoRecovery, WithMaxLastUpdate

package execute

import (
	"fmt"
	"time"

	"github.com/element-of-surprise/coercion/internal/execute/sm"
	"github.com/element-of-surprise/coercion/internal/zzverif/api"
	"github.com/element-of-surprise/coercion/internal/zzverif/kit"
	"github.com/element-of-surprise/coercion/internal/zzverif/shape"
	"github.com/element-of-surprise/coercion/workflow"
	"github.com/element-of-surprise/coercion/workflow/context"
	"github.com/element-of-surprise/coercion/workflow/storage"
	"github.com/element-of-surprise/coercion/workflow/utils/walk"
	"github.com/google/uuid"
	"github.com/gostdlib/base/statemachine"
)

const vhMaxDur = time.Duration(1) << 61

// vhTime: an arbitrary instant of the real clock range, or the zero time.
func vhTime(name string) time.Time {
	t := api.ClockTime(name)
	api.Assume(t.IsZero() || (t.UnixNano() >= 0 && t.UnixNano() < int64(1)<<62))
	return t
}

// vhStoredPlan builds one stored plan (1 block, 1 sequence, 1 action) with arbitrary status in every object and
// arbitrary timestamps on plan and block, i.e. an arbitrary store content as far as recovery reads it.
func vhStoredPlan(i int) *workflow.Plan {
	p := shape.Plan(shape.Cfg{MinBlocks: 1, MaxBlocks: 1, MinSeqs: 1, MaxSeqs: 1, MinActions: 1, MaxActions: 1, WithState: true, Req: kit.Req{}})
	pre := fmt.Sprintf("p%d.", i)
	p.Name = fmt.Sprintf("plan%d", i)
	p.SubmitTime = time.Unix(0, 1)
	p.State.Status = workflow.Status(api.NondetInt(pre + "status"))
	p.State.Start = vhTime(pre + "start")
	b := p.Blocks[0]
	b.Name = pre + "b0"
	b.Concurrency = 1
	b.State.Status = workflow.Running
	b.State.End = vhTime(pre + "b.end") // a nested timestamp, so that the maximum over all objects is exercised
	s := b.Sequences[0]
	s.Name = pre + "s0"
	a := s.Actions[0]
	a.Name = pre + "a0"
	a.Timeout = 30 * time.Second
	a.State.Status = workflow.Status(api.NondetInt(pre + "a.status"))
	return p
}

// vhLast: the most recent recorded activity as the engine defines it (max of State.Start/End over all objects).
func vhLast(p *workflow.Plan) time.Time {
	last := time.Time{}
	for it := range walk.Plan(p) {
		var st *workflow.State
		switch x := it.Value.(type) {
		case *workflow.Plan:
			st = x.State
		case *workflow.Checks:
			st = x.State
		case *workflow.Block:
			st = x.State
		case *workflow.Sequence:
			st = x.State
		case *workflow.Action:
			st = x.State
		}
		last = api.IteTime(st.Start.After(last), st.Start, last)
		last = api.IteTime(st.End.After(last), st.End, last)
	}
	return last
}

// VerifC11Filter: arbitrary store content (N plans), arbitrary maximum age and clock; the real recover state machine
// (start/fetchPlans/filterPlans/agedOut), Plans.recover and runPlan run; the runner is a recording stub.
func VerifC11Filter() {
	n := 1 + api.Choose("plans", api.Bound("plans", 2, 2))
	mon := kit.NewMon(kit.ModeOkFail)
	vault := kit.NewVault()
	reg := kit.NewRegistry(mon)
	var plans []*workflow.Plan
	for i := 0; i < n; i++ {
		p := vhStoredPlan(i)
		plans = append(plans, p)
		mon.Track(p)
		vault.Seed(p)
	}
	before := vault.Snapshot()
	maxAge := api.NondetDuration("max_last_update")
	api.Assume(maxAge >= 0 && maxAge < vhMaxDur)

	resumed := map[uuid.UUID]int{}
	resumedWith := map[uuid.UUID]bool{}
	states, _ := sm.New(vault, reg)
	e := &Plans{registry: reg, store: vault, states: states, maxLastUpdate: maxAge, maxSubmit: 30 * time.Minute, recovery: true}
	e.runner = func(name string, req statemachine.Request[sm.Data], options ...statemachine.Option[sm.Data]) (statemachine.Request[sm.Data], error) {
		resumed[req.Data.Plan.ID]++
		resumedWith[req.Data.Plan.ID] = req.Data.Plan.State.Status == workflow.Running
		return req, nil
	}
	e.addValidators()
	err := e.recover(context.Background())
	api.Quiesce()
	api.Assert(err == nil, "recovery of a readable store does not fail")

	// the engine asks storage for exactly the Running plans
	api.Assert(len(vault.LastFilters) == 1, "exactly one search")
	if len(vault.LastFilters) == 1 {
		f := vault.LastFilters[0]
		api.Assert(len(f.ByIDs) == 0 && len(f.ByGroupIDs) == 0 && len(f.ByStatus) == 1 && f.ByStatus[0] == workflow.Running, "start-up considers exactly the plans durably Running")
	}
	if api.Symbolic() && api.ClockReadings() == 0 {
		// nothing was Running: the clock is never read
		for _, p := range plans {
			api.Assert(before[p.ID].Status != workflow.Running, "a Running plan is examined")
		}
	}
	for _, p := range plans {
		im0 := before[p.ID]
		writes := 0
		for _, w := range vault.Log {
			for it := range walk.Plan(p) {
				if vhID(it.Value) == w.ID {
					writes++
				}
			}
		}
		if im0.Status != workflow.Running {
			api.Assert(writes == 0, "a plan that is not Running is never modified")
			api.Assert(resumed[p.ID] == 0, "a plan that is not Running is never resumed")
			api.Reach("non-Running plan left alone")
			continue
		}
		now := api.ClockReading(0)
		last := vhLast(p)
		stale := last.Add(maxAge).Before(now)
		if stale {
			api.Reach("stale Running plan")
			api.Assert(resumed[p.ID] == 0, "a stale Running plan is not resumed")
			im := vault.Img[p.ID]
			api.Assert(im.Status == workflow.Failed && im.Reason == workflow.FRExceedRecovery, "a stale Running plan is closed as Failed with reason ExceedRecovery")
			for it := range walk.Plan(p) {
				api.Assert(vault.Img[vhID(it.Value)].Status != workflow.Running, "nothing in a closed stale plan is left Running in storage")
			}
		} else {
			api.Reach("live Running plan")
			api.Assert(resumed[p.ID] == 1, "a live Running plan is resumed exactly once")
			api.Assert(writes == 0, "a live Running plan is not modified by the filter")
			api.Assert(resumedWith[p.ID], "a resumed plan enters the state machine as Running")
			if last.Add(maxAge).Equal(now) {
				api.Reach("boundary age resumed")
			}
		}
	}
	api.Assert(mon.InflightTotal() == 0 && len(mon.Log) == 0, "no plugin is invoked by the start-up filter")
}

func vhID(o workflow.Object) uuid.UUID {
	switch x := o.(type) {
	case *workflow.Plan:
		return x.ID
	case *workflow.Checks:
		return x.ID
	case *workflow.Block:
		return x.ID
	case *workflow.Sequence:
		return x.ID
	case *workflow.Action:
		return x.ID
	}
	return uuid.Nil
}

// VerifC11New: the real execute.New with recovery on or off over a store holding one fresh Running plan and one
// NotStarted plan; the resumed plan runs through the real engine.
func VerifC11New() {
	api.LogicalClock()
	mon := kit.NewMon(kit.ModeOkFail)
	vault := kit.NewVault()
	reg := kit.NewRegistry(mon)
	mk := func(i int, st workflow.Status) *workflow.Plan {
		p := shape.Plan(shape.Cfg{MinBlocks: 1, MaxBlocks: 1, MinSeqs: 1, MaxSeqs: 1, MinActions: 1, MaxActions: 1, WithState: true, Req: kit.Req{}})
		p.Name = fmt.Sprintf("plan%d", i)
		p.Blocks[0].Name = fmt.Sprintf("p%d.b0", i)
		p.Blocks[0].Concurrency = 1
		p.Blocks[0].Sequences[0].Name = fmt.Sprintf("p%d.s0", i)
		p.Blocks[0].Sequences[0].Actions[0].Name = fmt.Sprintf("p%d.a0", i)
		p.Blocks[0].Sequences[0].Actions[0].Timeout = 30 * time.Second
		p.SubmitTime = time.Unix(0, 1_000_000_000)
		p.State.Status = st
		if st == workflow.Running {
			p.State.Start = time.Unix(0, 1_000_000_500)
			if !api.Symbolic() {
				p.State.Start = time.Now() // native replay: recent on the real clock
			}
		}
		mon.Track(p)
		vault.Seed(p)
		return p
	}
	running := mk(0, workflow.Running)
	idle := mk(1, workflow.NotStarted)
	off := api.NondetBool("no_recovery")
	var opts []Option
	if off {
		opts = append(opts, WithNoRecovery())
	}
	e, err := New(context.Background(), vault, reg, opts...)
	api.Assert(err == nil && e != nil, "New succeeds")
	if e != nil && !off {
		e.Wait(context.Background(), running.ID)
	}
	api.Quiesce()
	idleWrites, runWrites := 0, 0
	for _, w := range vault.Log {
		for it := range walk.Plan(idle) {
			if vhID(it.Value) == w.ID {
				idleWrites++
			}
		}
		for it := range walk.Plan(running) {
			if vhID(it.Value) == w.ID {
				runWrites++
			}
		}
	}
	api.Assert(idleWrites == 0 && mon.Calls["p1.a0"] == 0, "a plan never started stays untouched")
	if off {
		api.Assert(runWrites == 0 && len(mon.Log) == 0, "with recovery disabled nothing is resumed or modified")
		api.Reach("recovery disabled")
	} else {
		api.Assert(mon.Calls["p0.a0"] == 1, "a live Running plan is resumed and its pending action runs once")
		st := vault.Img[running.ID].Status
		api.Assert(st == workflow.Completed || st == workflow.Failed, "the resumed plan reaches a terminal state")
		api.Reach("recovery enabled")
	}
}

var _ = storage.Filters{}
