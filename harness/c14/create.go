//verif:package workflow/storage/sqlite
//verif:uses (*Vault).{Create,Read,Delete,Exists} (exported)

package sqlite

import (
	"github.com/element-of-surprise/coercion/internal/zzverif/api"
	"github.com/element-of-surprise/coercion/workflow"
	"github.com/element-of-surprise/coercion/workflow/utils/walk"
	"github.com/google/uuid"
	"github.com/gostdlib/base/context"
	"zombiezen.com/go/sqlite"
	"zombiezen.com/go/sqlite/sqlitex"
)

type vhBadReq struct {
	C chan int // cannot be serialised
}

var vhTables = []string{"plans", "blocks", "checks", "sequences", "actions"}

// vhRowsOf counts the rows that belong to plan id in every table: from the row store symbolically, from the real
// in-memory SQLite natively (through the vault's test-only Pool accessor).
func vhRowsOf(v *Vault, id uuid.UUID) int {
	if api.Symbolic() {
		n := api.SQLRowCount("plans", "id", id.String())
		for _, t := range vhTables[1:] {
			n += api.SQLRowCount(t, "plan_id", id.String())
		}
		return n
	}
	conn, err := v.Pool().Take(context.Background())
	if err != nil {
		return -1
	}
	defer v.Pool().Put(conn)
	n := 0
	for i, t := range vhTables {
		col := "plan_id"
		if i == 0 {
			col = "id"
		}
		sqlitex.ExecuteTransient(conn, "SELECT COUNT(*) FROM "+t+" WHERE "+col+" = ?", &sqlitex.ExecOptions{
			Args:       []any{id.String()},
			ResultFunc: func(stmt *sqlite.Stmt) error { n += stmt.ColumnInt(0); return nil },
		})
	}
	return n
}

func vhObjects(p *workflow.Plan) int {
	n := 0
	for range walk.Plan(p) {
		n++
	}
	return n
}

// VerifC14Atomic: a failure injected at every Prepare, Step and Marshal site instance of Create (solver booleans),
// or a request that cannot be serialised at a chosen position: Create is all-or-nothing.
func VerifC14Atomic() {
	v, _ := vhVault()
	ctx := context.Background()
	p := vhStoredX("", false, true)
	bad := api.Choose("unserialisable_request", 2) == 1
	if bad {
		var acts []*workflow.Action
		for it := range walk.Plan(p) {
			if a, ok := it.Value.(*workflow.Action); ok {
				acts = append(acts, a)
			}
		}
		acts[api.Choose("bad_position", len(acts))].Req = vhBadReq{C: make(chan int)}
		api.Fact("fault", "unserialisable request")
	} else {
		api.SQLFaults(true)
	}
	w0 := api.SQLWritesOutsideTx()
	err := v.Create(ctx, p)
	api.SQLFaults(false)
	api.Assert(api.SQLWritesOutsideTx() == w0, "C14: every insert of Create happens inside the transaction")
	api.Assert(api.SQLOpenTx() == 0 && !api.SQLConnTaken(), "C14: Create leaves no open transaction and returns the connection")
	injected := api.SQLInjected()
	if bad || injected > 0 {
		api.Assert(err != nil, "C14: a Create during which an object could not be encoded or written reports an error")
		api.Reach("failure injected")
	}
	if err != nil {
		api.Assert(vhRowsOf(v, p.ID) == 0, "C14: a failed Create leaves no trace of the plan in any table")
		got, rerr := v.Read(ctx, p.ID)
		api.Assert(rerr != nil && got == nil, "C14: a failed Create leaves nothing readable")
		api.Reach("create failed")
		return
	}
	api.Reach("create succeeded")
	api.Assert(vhRowsOf(v, p.ID) == vhObjects(p), "C14: a successful Create stores one row per object")
	got, rerr := v.Read(ctx, p.ID)
	api.Assert(rerr == nil && got != nil, "C14: a successful Create implies the plan is readable")
	if rerr == nil && got != nil {
		vhEqPlan(p, got)
	}
}

// VerifC14Twice: creating an id twice fails without altering the first.
func VerifC14Twice() {
	v, _ := vhVault()
	ctx := context.Background()
	p := vhStoredX("", true, true)
	api.Assert(v.Create(ctx, p) == nil, "Create of a well-formed plan succeeds")
	q := vhStoredX("second.", true, true)
	q.ID = p.ID // same plan id, different content and object ids
	err := v.Create(ctx, q)
	api.Assert(err != nil, "C14: creating an id twice fails")
	got, rerr := v.Read(ctx, p.ID)
	api.Assert(rerr == nil && got != nil, "C14: the first plan is still readable")
	if rerr == nil && got != nil {
		vhEqPlan(p, got)
		api.Reach("first plan intact after duplicate create")
	}
	api.Assert(vhRowsOf(v, p.ID) == vhObjects(p), "C14: a rejected duplicate Create leaves none of its rows behind")
}

// VerifC14Delete: Delete removes the plan and every object belonging to it and nothing belonging to any other plan.
func VerifC14Delete() {
	v, _ := vhVault()
	ctx := context.Background()
	p1 := vhStoredX("one.", false, true)
	p2 := vhStoredX("two.", true, true)
	first := api.Choose("create_order", 2)
	if first == 0 {
		api.Assert(v.Create(ctx, p1) == nil && v.Create(ctx, p2) == nil, "Create of a well-formed plan succeeds")
	} else {
		api.Assert(v.Create(ctx, p2) == nil && v.Create(ctx, p1) == nil, "Create of a well-formed plan succeeds")
	}
	w0 := api.SQLWritesOutsideTx()
	err := v.Delete(ctx, p1.ID)
	api.Assert(err == nil, "C14: Delete of a stored plan succeeds")
	api.Assert(api.SQLWritesOutsideTx() == w0, "C14: every delete statement runs inside the transaction")
	api.Assert(api.SQLOpenTx() == 0 && !api.SQLConnTaken(), "C14: Delete leaves no open transaction and returns the connection")
	api.Assert(vhRowsOf(v, p1.ID) == 0, "C14: Delete removes the plan and every object belonging to it")
	api.Assert(vhRowsOf(v, p2.ID) == vhObjects(p2), "C14: Delete removes nothing belonging to another plan")
	got1, err1 := v.Read(ctx, p1.ID)
	api.Assert(err1 != nil && got1 == nil, "C14: a deleted plan is no longer readable")
	got2, err2 := v.Read(ctx, p2.ID)
	api.Assert(err2 == nil && got2 != nil, "C14: the other plan is still readable")
	if err2 == nil && got2 != nil {
		vhEqPlan(p2, got2)
		api.Reach("other plan intact after delete")
	}
	api.Assert(v.Delete(ctx, p1.ID) != nil, "C14: deleting an id that does not exist is an error")
}

// VerifC14Interleave: histories of Create and Delete over two plans (the quantifier's "interleaved creates and
// deletes of several plans"), against a reference set of stored ids. After every operation its result is what the
// reference says; after the history every stored plan is complete and equal to what was created, and every absent
// plan has no row in any table and is not readable. Re-creating a deleted id must work.
func VerifC14Interleave() {
	v, _ := vhVault()
	ctx := context.Background()
	plans := [2]*workflow.Plan{vhStoredX("one.", true, true), vhStoredX("two.", true, true)}
	// plan one carries solver variables where the stored value is an integer column or part of an encoded blob
	plans[0].Reason = workflow.FailureReason(api.NondetInt("one.reason"))
	plans[0].State.Status = workflow.Status(api.NondetInt("one.status"))
	plans[0].Blocks[0].Concurrency = api.NondetInt("one.conc")
	plans[0].Blocks[0].ToleratedFailures = api.NondetInt("one.tol")
	plans[0].Blocks[0].Sequences[0].Actions[0].Retries = api.NondetInt("one.retries")
	stored := [2]bool{}
	n := api.Bound("history", 4, 5)
	recreated := false
	deletedOnce := [2]bool{}
	for step := 0; step < n; step++ {
		op := api.Choose("op", 4)
		i := op & 1
		if op < 2 {
			err := v.Create(ctx, plans[i])
			if stored[i] {
				api.Assert(err != nil, "C14: creating an id twice fails (history)")
			} else {
				api.Assert(err == nil, "C14: Create of an absent id succeeds, also after it was deleted (history)")
				if deletedOnce[i] {
					recreated = true
				}
				stored[i] = true
			}
		} else {
			err := v.Delete(ctx, plans[i].ID)
			if stored[i] {
				api.Assert(err == nil, "C14: Delete of a stored plan succeeds (history)")
				stored[i] = false
				deletedOnce[i] = true
			}
		}
		api.Assert(api.SQLOpenTx() == 0 && !api.SQLConnTaken(), "C14: no open transaction or held connection between operations (history)")
		for k := 0; k < 2; k++ {
			if stored[k] {
				api.Assert(vhRowsOf(v, plans[k].ID) == vhObjects(plans[k]), "C14: a stored plan keeps one row per object whatever happens to other plans (history)")
			} else {
				api.Assert(vhRowsOf(v, plans[k].ID) == 0, "C14: an absent plan has no row in any table (history)")
			}
		}
	}
	for k := 0; k < 2; k++ {
		got, err := v.Read(ctx, plans[k].ID)
		if stored[k] {
			api.Assert(err == nil && got != nil, "C14: a stored plan is readable (history)")
			if err == nil && got != nil {
				vhEqPlan(plans[k], got)
			}
		} else {
			api.Assert(err != nil && got == nil, "C14: an absent plan is not readable (history)")
		}
	}
	if recreated {
		api.Reach("plan re-created after delete")
	}
	if stored[0] && !stored[1] && deletedOnce[1] {
		api.Reach("one plan stored, the other deleted")
	}
}
