package sx

import (
	"gosx/smt"
)

// Path condition with constraint-independence slicing: a query only carries the conjuncts that share
// variables (transitively) with it. Sound because the whole path condition is kept satisfiable.

type pcEntry struct {
	t    *smt.Term
	vars []string
}

type pendingAssert struct {
	cond  *smt.Term
	label string
	where string
}

func (it *Interp) termVars(t *smt.Term) []string {
	if it.varCache == nil {
		it.varCache = map[int64][]string{}
	}
	if v, ok := it.varCache[t.ID]; ok {
		return v
	}
	m := map[string]*smt.Term{}
	t.Vars(m, map[int64]bool{})
	out := make([]string, 0, len(m))
	if it.varByName == nil {
		it.varByName = map[string]*smt.Term{}
	}
	for k, vt := range m {
		out = append(out, k)
		it.varByName[k] = vt
	}
	it.varCache[t.ID] = out
	return out
}

func (it *Interp) find(v string) string {
	if it.dsu == nil {
		it.dsu = map[string]string{}
	}
	p, ok := it.dsu[v]
	if !ok {
		it.dsu[v] = v
		return v
	}
	if p == v {
		return v
	}
	r := it.find(p)
	it.dsu[v] = r
	return r
}

func (it *Interp) union(a, b string) {
	ra, rb := it.find(a), it.find(b)
	if ra != rb {
		it.dsu[ra] = rb
	}
}

func (it *Interp) addPC(t *smt.Term) {
	if t.IsTrue() {
		return
	}
	vs := it.termVars(t)
	if it.freshBefore == nil {
		it.freshBefore = map[string]bool{}
	}
	for _, v := range vs {
		if _, known := it.dsu[v]; !known {
			it.freshBefore[v] = true
		} else {
			delete(it.freshBefore, v)
		}
	}
	for i := 1; i < len(vs); i++ {
		it.union(vs[0], vs[i])
	}
	for _, v := range vs {
		it.find(v)
	}
	it.pc = append(it.pc, pcEntry{t: t, vars: vs})
	it.learnEq(t)
	// keep the cached model a model of the whole path condition
	if h, ok := it.holdsInModel(t); !ok || !h {
		if it.candFor == t && it.candModel != nil {
			it.mergeModel(it.candModel)
		} else if it.isFreshLiteral2(t) {
			it.setLiteral(t)
		} else {
			res, m := it.checkModel(t, true)
			if res == smt.Sat {
				it.mergeModel(m)
			} else {
				it.model = nil // no model known (replayed prefix with an undecided step); rebuilt lazily
				it.modelBroken = true
			}
		}
	}
	it.candFor, it.candModel = nil, nil
}

// isFreshLiteral2: t is a boolean variable or its negation (its value can be set directly in the model).
func (it *Interp) isFreshLiteral2(t *smt.Term) bool {
	x := t
	if x.Op == "not" {
		x = x.Args[0]
	}
	return x.Op == "var" && x.Sort == 0 && it.freshBefore[x.Name]
}

func (it *Interp) setLiteral(t *smt.Term) {
	if it.model == nil {
		it.model = map[string]uint64{}
	}
	if t.Op == "not" {
		it.model[t.Args[0].Name] = 0
	} else {
		it.model[t.Name] = 1
	}
}

// sliceFor returns the conjuncts of the path condition relevant to the given terms.
func (it *Interp) sliceFor(ts ...*smt.Term) []*smt.Term {
	roots := map[string]bool{}
	for _, t := range ts {
		if t == nil {
			continue
		}
		for _, v := range it.termVars(t) {
			if _, known := it.dsu[v]; known {
				roots[it.find(v)] = true
			}
		}
	}
	if len(roots) == 0 {
		return nil
	}
	var out []*smt.Term
	for _, e := range it.pc {
		if len(e.vars) == 0 {
			out = append(out, e.t)
			continue
		}
		if roots[it.find(e.vars[0])] {
			out = append(out, e.t)
		}
	}
	return out
}

func (it *Interp) fullPC() []*smt.Term {
	out := make([]*smt.Term, len(it.pc))
	for i, e := range it.pc {
		out[i] = e.t
	}
	return out
}

// check decides pc AND extra using only the relevant slice of pc. On sat the cached model (which always
// satisfies the whole path condition) is NOT changed; use checkKeep for that.
func (it *Interp) check(extra *smt.Term) smt.Result {
	res, _ := it.checkModel(extra, false)
	return res
}

// checkModel is check that also returns, on sat, the values of the variables of the slice.
func (it *Interp) checkModel(extra *smt.Term, want bool) (smt.Result, map[string]uint64) {
	slice := it.sliceFor(extra)
	var vars []*smt.Term
	if want {
		seen := map[string]bool{}
		add := func(t *smt.Term) {
			for _, v := range it.termVars(t) {
				if !seen[v] {
					seen[v] = true
					vars = append(vars, it.varByName[v])
				}
			}
		}
		for _, c := range slice {
			add(c)
		}
		if extra != nil {
			add(extra)
		}
	}
	res, m, err := it.Solver.Check(extra, slice, vars)
	if err != nil {
		panic(pathEnd{Kind: "unsupported", Label: "solver", Msg: err.Error()})
	}
	return res, m
}

// holdsInModel evaluates t under the cached model of the path condition.
func (it *Interp) holdsInModel(t *smt.Term) (bool, bool) {
	if it.model == nil {
		it.model = map[string]uint64{}
	}
	v, ok := smt.Eval(t, it.model, map[int64]uint64{})
	return v != 0, ok
}

func (it *Interp) mergeModel(m map[string]uint64) {
	if it.model == nil {
		it.model = map[string]uint64{}
	}
	for k, v := range m {
		it.model[k] = v
	}
}

// modelOf returns values for all nondet variables in a model of the whole pc AND extra.
func (it *Interp) modelOf(extra *smt.Term) (smt.Result, map[string]uint64) {
	res, m, err := it.Solver.Check(extra, it.fullPC(), it.vars)
	if err != nil {
		panic(pathEnd{Kind: "unsupported", Label: "solver", Msg: err.Error()})
	}
	return res, m
}

// isFreshLiteral: t is a boolean variable (or its negation) that the path condition does not mention.
func (it *Interp) isFreshLiteral(t *smt.Term) bool {
	x := t
	if x.Op == "not" {
		x = x.Args[0]
	}
	if x.Op != "var" || x.Sort != 0 {
		return false
	}
	_, known := it.dsu[x.Name]
	return !known
}

// feasible asks whether pc AND t is satisfiable; unknown counts as feasible (kept, reported).
// The cached model answers the question for free when it happens to satisfy t.
func (it *Interp) feasible(t *smt.Term) bool {
	if t.IsTrue() {
		return true
	}
	if t.IsFalse() {
		return false
	}
	if it.isFreshLiteral(t) {
		return true
	}
	if v, ok := it.knownTruth(t); ok {
		it.modelHits++
		return v
	}
	if h, ok := it.holdsInModel(t); ok && h {
		it.modelHits++
		return true
	}
	it.nBranchQ++
	res, m := it.checkModel(t, true)
	if res == smt.Unknown {
		it.unknownBranches++
	}
	if res == smt.Sat {
		// remember a model of pc AND t: if the caller commits to t, it becomes the cached model
		it.candModel = m
		it.candFor = t
	}
	return res != smt.Unsat
}

// deferAssert queues a symbolic assertion; it is discharged by flushAsserts (one query for the whole batch).
func (it *Interp) deferAssert(cond *smt.Term, label, where string) {
	it.pending = append(it.pending, pendingAssert{cond: cond, label: label, where: where})
}

// flushAsserts discharges every queued assertion under the current path condition. Called before every
// Assume (assumptions are not retroactive) and at the end of every path.
func (it *Interp) flushAsserts() {
	if len(it.pending) == 0 {
		return
	}
	batch := it.pending
	it.pending = nil
	conj := smt.True
	for _, p := range batch {
		conj = smt.And(conj, p.cond)
	}
	it.nAssertQ++
	first := it.check(smt.Not(conj))
	it.crossCtr++
	if it.Solver2 != nil && first != smt.Unknown && (it.CrossEvery <= 1 || it.crossCtr%it.CrossEvery == 0) {
		// thorough tier: every assertion batch is re-decided by a second solver; a disagreement is never a pass
		q := smt.Not(conj)
		r2, _, err := it.Solver2.Check(q, it.sliceFor(q), nil)
		it.nCross++
		if err != nil || r2 == smt.Unknown {
			it.crossUnknown++
		} else if r2 != first {
			panic(pathEnd{Kind: "unsupported", Label: "solver-disagreement", Msg: "z3 says " + first.String() + ", " + it.Solver2.Kind + " says " + r2.String() + " on assertion batch starting with: " + batch[0].label})
		}
	}
	switch first {
	case smt.Unsat:
		return
	case smt.Unknown:
		panic(pathEnd{Kind: "unsupported", Label: "solver-unknown", Msg: "assertion batch undecided (first: " + batch[0].label + ")"})
	}
	// some assertion of the batch can fail: find which
	for _, p := range batch {
		neg := smt.Not(p.cond)
		it.nAssertQ++
		switch it.check(neg) {
		case smt.Unknown:
			panic(pathEnd{Kind: "unsupported", Label: "solver-unknown", Msg: "assertion query undecided: " + p.label})
		case smt.Sat:
			_, model := it.modelOf(neg)
			it.recordViolation(&Violation{Kind: "assert", Label: p.label, Msg: "solver found values violating the assertion", Where: p.where}, model)
			if !it.feasible(p.cond) {
				panic(pathEnd{Kind: "fault", Label: p.label, Msg: "assertion violated on every value of this path"})
			}
			it.addPC(p.cond)
		}
	}
}

// learnEq remembers what the path condition says about terms compared with constants (x == c, x != c).
func (it *Interp) learnEq(t *smt.Term) {
	neg := false
	if t.Op == "not" {
		neg = true
		t = t.Args[0]
	}
	if t.Op != "=" || t.Args[0].Sort == 0 {
		return
	}
	a, b := t.Args[0], t.Args[1]
	if b.Op != "const" {
		a, b = b, a
	}
	if b.Op != "const" || a.Op == "const" {
		return
	}
	if neg {
		if it.excluded == nil {
			it.excluded = map[int64]map[uint64]bool{}
		}
		if it.excluded[a.ID] == nil {
			it.excluded[a.ID] = map[uint64]bool{}
		}
		it.excluded[a.ID][b.Val] = true
		return
	}
	if it.pinned == nil {
		it.pinned = map[int64]uint64{}
	}
	it.pinned[a.ID] = b.Val
}

// iteLeaves returns the constant leaves of an ite tree, or nil if some leaf is not a constant.
func (it *Interp) iteLeaves(t *smt.Term) map[uint64]bool {
	if it.leafCache == nil {
		it.leafCache = map[int64]map[uint64]bool{}
	}
	if l, ok := it.leafCache[t.ID]; ok {
		return l
	}
	var res map[uint64]bool
	switch t.Op {
	case "const":
		res = map[uint64]bool{t.Val: true}
	case "ite":
		l1, l2 := it.iteLeaves(t.Args[1]), it.iteLeaves(t.Args[2])
		if l1 != nil && l2 != nil {
			res = map[uint64]bool{}
			for k := range l1 {
				res[k] = true
			}
			for k := range l2 {
				res[k] = true
			}
		}
	}
	it.leafCache[t.ID] = res
	return res
}

// knownTruth decides (x == c) and its negation without the solver when the path condition pins x, excludes c,
// or x is an ite tree over constants that cannot take (or can only take) the value c.
func (it *Interp) knownTruth(t *smt.Term) (bool, bool) {
	if t.Op == "not" {
		v, ok := it.knownTruth(t.Args[0])
		return !v, ok
	}
	if t.Op != "=" || t.Args[0].Sort == 0 {
		return false, false
	}
	a, b := t.Args[0], t.Args[1]
	if b.Op != "const" {
		a, b = b, a
	}
	if b.Op != "const" || a.Op == "const" {
		return false, false
	}
	if v, ok := it.pinned[a.ID]; ok {
		return v == b.Val, true
	}
	ex := it.excluded[a.ID]
	if ex[b.Val] {
		return false, true
	}
	if leaves := it.iteLeaves(a); leaves != nil {
		if !leaves[b.Val] {
			return false, true
		}
		left := 0
		for k := range leaves {
			if !ex[k] {
				left++
			}
		}
		if left == 1 {
			return true, true
		}
	}
	return false, false
}
