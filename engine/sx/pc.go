package sx

import (
	"gosx/smt"
)

// Path condition with constraint-independence slicing: a query only carries the conjuncts that share
// variables (transitively) with it. Sound because the whole path condition is kept satisfiable.

type pcEntry struct {
	t    *smt.Term
	vars []string
}

type pendingAssert struct {
	cond  *smt.Term
	label string
	where string
}

func (it *Interp) termVars(t *smt.Term) []string {
	if it.varCache == nil {
		it.varCache = map[int64][]string{}
	}
	if v, ok := it.varCache[t.ID]; ok {
		return v
	}
	m := map[string]*smt.Term{}
	t.Vars(m, map[int64]bool{})
	out := make([]string, 0, len(m))
	for k := range m {
		out = append(out, k)
	}
	it.varCache[t.ID] = out
	return out
}

func (it *Interp) find(v string) string {
	if it.dsu == nil {
		it.dsu = map[string]string{}
	}
	p, ok := it.dsu[v]
	if !ok {
		it.dsu[v] = v
		return v
	}
	if p == v {
		return v
	}
	r := it.find(p)
	it.dsu[v] = r
	return r
}

func (it *Interp) union(a, b string) {
	ra, rb := it.find(a), it.find(b)
	if ra != rb {
		it.dsu[ra] = rb
	}
}

func (it *Interp) addPC(t *smt.Term) {
	if t.IsTrue() {
		return
	}
	vs := it.termVars(t)
	for i := 1; i < len(vs); i++ {
		it.union(vs[0], vs[i])
	}
	for _, v := range vs {
		it.find(v)
	}
	it.pc = append(it.pc, pcEntry{t: t, vars: vs})
}

// sliceFor returns the conjuncts of the path condition relevant to the given terms.
func (it *Interp) sliceFor(ts ...*smt.Term) []*smt.Term {
	roots := map[string]bool{}
	for _, t := range ts {
		if t == nil {
			continue
		}
		for _, v := range it.termVars(t) {
			if _, known := it.dsu[v]; known {
				roots[it.find(v)] = true
			}
		}
	}
	if len(roots) == 0 {
		return nil
	}
	var out []*smt.Term
	for _, e := range it.pc {
		if len(e.vars) == 0 {
			out = append(out, e.t)
			continue
		}
		if roots[it.find(e.vars[0])] {
			out = append(out, e.t)
		}
	}
	return out
}

func (it *Interp) fullPC() []*smt.Term {
	out := make([]*smt.Term, len(it.pc))
	for i, e := range it.pc {
		out[i] = e.t
	}
	return out
}

// check decides pc AND extra using only the relevant slice of pc.
func (it *Interp) check(extra *smt.Term) smt.Result {
	res, _, err := it.Solver.Check(extra, it.sliceFor(extra), nil)
	if err != nil {
		panic(pathEnd{Kind: "unsupported", Label: "solver", Msg: err.Error()})
	}
	return res
}

// modelOf returns values for all nondet variables in a model of the whole pc AND extra.
func (it *Interp) modelOf(extra *smt.Term) (smt.Result, map[string]uint64) {
	res, m, err := it.Solver.Check(extra, it.fullPC(), it.vars)
	if err != nil {
		panic(pathEnd{Kind: "unsupported", Label: "solver", Msg: err.Error()})
	}
	return res, m
}

// isFreshLiteral: t is a boolean variable (or its negation) that the path condition does not mention.
func (it *Interp) isFreshLiteral(t *smt.Term) bool {
	x := t
	if x.Op == "not" {
		x = x.Args[0]
	}
	if x.Op != "var" || x.Sort != 0 {
		return false
	}
	_, known := it.dsu[x.Name]
	return !known
}

// feasible asks whether pc AND t is satisfiable; unknown counts as feasible (kept, reported).
func (it *Interp) feasible(t *smt.Term) bool {
	if t.IsTrue() {
		return true
	}
	if t.IsFalse() {
		return false
	}
	if it.isFreshLiteral(t) {
		return true
	}
	it.nBranchQ++
	res := it.check(t)
	if res == smt.Unknown {
		it.unknownBranches++
	}
	return res != smt.Unsat
}

// deferAssert queues a symbolic assertion; it is discharged by flushAsserts (one query for the whole batch).
func (it *Interp) deferAssert(cond *smt.Term, label, where string) {
	it.pending = append(it.pending, pendingAssert{cond: cond, label: label, where: where})
}

// flushAsserts discharges every queued assertion under the current path condition. Called before every
// Assume (assumptions are not retroactive) and at the end of every path.
func (it *Interp) flushAsserts() {
	if len(it.pending) == 0 {
		return
	}
	batch := it.pending
	it.pending = nil
	conj := smt.True
	for _, p := range batch {
		conj = smt.And(conj, p.cond)
	}
	it.nAssertQ++
	switch it.check(smt.Not(conj)) {
	case smt.Unsat:
		return
	case smt.Unknown:
		panic(pathEnd{Kind: "unsupported", Label: "solver-unknown", Msg: "assertion batch undecided (first: " + batch[0].label + ")"})
	}
	// some assertion of the batch can fail: find which
	for _, p := range batch {
		neg := smt.Not(p.cond)
		it.nAssertQ++
		switch it.check(neg) {
		case smt.Unknown:
			panic(pathEnd{Kind: "unsupported", Label: "solver-unknown", Msg: "assertion query undecided: " + p.label})
		case smt.Sat:
			_, model := it.modelOf(neg)
			it.recordViolation(&Violation{Kind: "assert", Label: p.label, Msg: "solver found values violating the assertion", Where: p.where}, model)
			if !it.feasible(p.cond) {
				panic(pathEnd{Kind: "fault", Label: p.label, Msg: "assertion violated on every value of this path"})
			}
			it.addPC(p.cond)
		}
	}
}
