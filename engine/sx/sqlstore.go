package sx

// Row-store contract that stands in for SQLite (DESIGN.md section 4.6): a mini-parser for exactly the
// statement forms the package under test produces, tables of rows whose values are interpreter values
// (symbolic integers, concrete strings, byte strings), SQLite's storage-class comparison rules for the
// cases that occur, a blocking pool of one connection and snapshot transactions.

import (
	"fmt"
	"go/types"
	"strings"

	"gosx/smt"

	"golang.org/x/tools/go/ssa"
)

type sqlVal struct {
	k byte // 'n' null, 'i' integer, 't' text, 'b' blob
	i IntV
	s string
	b []Value // blob bytes (IntV cells)
}

func (v sqlVal) String() string {
	switch v.k {
	case 'n':
		return "NULL"
	case 'i':
		if v.i.T != nil {
			return "<sym int>"
		}
		return fmt.Sprint(v.i.Int64())
	case 't':
		return "'" + v.s + "'"
	}
	return fmt.Sprintf("blob(%d)", len(v.b))
}

type sqlRow struct{ vals map[string]sqlVal }

type sqlColDef struct {
	name    string
	pk      bool
	notNull bool
}

type sqlTable struct {
	name string
	cols []sqlColDef
	rows []*sqlRow
}

type sqlDB struct {
	tables map[string]*sqlTable
	order  []string
}

func (db *sqlDB) clone() *sqlDB {
	n := &sqlDB{tables: map[string]*sqlTable{}, order: append([]string{}, db.order...)}
	for k, t := range db.tables {
		nt := &sqlTable{name: t.name, cols: t.cols}
		for _, r := range t.rows {
			nr := &sqlRow{vals: map[string]sqlVal{}}
			for c, v := range r.vals {
				nr.vals[c] = v
			}
			nt.rows = append(nt.rows, nr)
		}
		n.tables[k] = nt
	}
	return n
}

type sqlPool struct {
	db    *sqlDB
	conn  *sqlConn
	taken bool
}

type sqlConn struct {
	pool           *sqlPool
	snaps          []*sqlDB
	writesOutside  int
	writesInside   int
	closed         bool
}

type sqlExpr struct {
	kind string // "param", "ident", "str", "int", "coalesce"
	s    string // param name ("$x" or "?N"), identifier, literal
	n    int64
	args []sqlExpr // coalesce
}

type sqlCond struct {
	op   string // "=", "in", "and", "or"
	l, r sqlExpr
	list []sqlExpr
	a, b *sqlCond
}

type sqlQuery struct {
	kind     string // create, index, insert, update, delete, select
	table    string
	cols     []string
	count    bool
	vals     []sqlExpr
	sets     []sqlSet
	where    *sqlCond
	orderCol string
	desc     bool
	limit    *sqlExpr
	colDefs  []sqlColDef
	params   []string // parameter names in order of appearance ("$x", or "?1", "?2", ...)
}

type sqlSet struct {
	col string
	e   sqlExpr
}

type sqlStmt struct {
	conn    *sqlConn
	text    string
	q       *sqlQuery
	binds   map[string]sqlVal
	bindErr string
	done    bool
	rows    []*sqlRow
	cur     *sqlRow
	pos     int
	countV  *IntV
}

// ---------- tokenizer / parser ----------

func sqlTokens(s string) ([]string, error) {
	var toks []string
	i := 0
	for i < len(s) {
		c := s[i]
		switch {
		case c == ' ' || c == '\t' || c == '\n' || c == '\r':
			i++
		case c == '(' || c == ')' || c == ',' || c == '=' || c == ';' || c == '*':
			toks = append(toks, string(c))
			i++
		case c == '\'':
			j := strings.IndexByte(s[i+1:], '\'')
			if j < 0 {
				return nil, fmt.Errorf("unterminated string literal")
			}
			toks = append(toks, s[i:i+j+2])
			i += j + 2
		case c == '?':
			toks = append(toks, "?")
			i++
		case c == '$' || c == '_' || (c >= 'a' && c <= 'z') || (c >= 'A' && c <= 'Z') || (c >= '0' && c <= '9'):
			j := i + 1
			for j < len(s) && (s[j] == '_' || (s[j] >= 'a' && s[j] <= 'z') || (s[j] >= 'A' && s[j] <= 'Z') || (s[j] >= '0' && s[j] <= '9')) {
				j++
			}
			toks = append(toks, s[i:j])
			i = j
		default:
			return nil, fmt.Errorf("unrecognized token: %q", string(c))
		}
	}
	return toks, nil
}

type sqlParser struct {
	toks []string
	i    int
	q    *sqlQuery
	npos int
}

func (p *sqlParser) peek() string {
	if p.i < len(p.toks) {
		return p.toks[p.i]
	}
	return ""
}
func (p *sqlParser) next() string {
	t := p.peek()
	p.i++
	return t
}
func (p *sqlParser) kw(k string) bool {
	if strings.EqualFold(p.peek(), k) {
		p.i++
		return true
	}
	return false
}
func (p *sqlParser) expect(k string) error {
	if !p.kw(k) {
		return fmt.Errorf("near %q: syntax error (expected %s)", p.peek(), k)
	}
	return nil
}

func isIdent(t string) bool {
	if t == "" {
		return false
	}
	c := t[0]
	return c == '_' || (c >= 'a' && c <= 'z') || (c >= 'A' && c <= 'Z')
}

var sqlKeywords = map[string]bool{"select": true, "from": true, "where": true, "and": true, "or": true, "in": true, "order": true, "by": true, "limit": true,
	"insert": true, "into": true, "values": true, "update": true, "set": true, "delete": true, "asc": true, "desc": true, "create": true, "table": true}

func (p *sqlParser) name() (string, error) {
	t := p.next()
	if len(t) >= 2 && t[0] == '\'' {
		return t[1 : len(t)-1], nil // 'plans' in identifier position is an identifier
	}
	if !isIdent(t) || sqlKeywords[strings.ToLower(t)] {
		return "", fmt.Errorf("near %q: syntax error", t)
	}
	return strings.ToLower(t), nil
}

func (p *sqlParser) expr() (sqlExpr, error) {
	t := p.next()
	switch {
	case t == "?":
		p.npos++
		n := fmt.Sprintf("?%d", p.npos)
		p.q.params = append(p.q.params, n)
		return sqlExpr{kind: "param", s: n}, nil
	case strings.HasPrefix(t, "$"):
		p.q.params = append(p.q.params, t)
		return sqlExpr{kind: "param", s: t}, nil
	case len(t) >= 2 && t[0] == '\'':
		return sqlExpr{kind: "str", s: t[1 : len(t)-1]}, nil // in expression position a quoted word is a string literal
	case t != "" && t[0] >= '0' && t[0] <= '9':
		var n int64
		fmt.Sscan(t, &n)
		return sqlExpr{kind: "int", n: n}, nil
	case strings.ToLower(t) == "coalesce" && p.peek() == "(":
		// COALESCE(a, b, ...): the first argument that is not NULL (an unbound parameter is NULL)
		p.next()
		var args []sqlExpr
		for {
			a, err := p.expr()
			if err != nil {
				return sqlExpr{}, err
			}
			args = append(args, a)
			if p.peek() == "," {
				p.next()
				continue
			}
			break
		}
		if err := p.expect(")"); err != nil {
			return sqlExpr{}, err
		}
		if len(args) < 2 {
			return sqlExpr{}, fmt.Errorf("wrong number of arguments to function COALESCE()")
		}
		return sqlExpr{kind: "coalesce", args: args}, nil
	case isIdent(t) && !sqlKeywords[strings.ToLower(t)]:
		return sqlExpr{kind: "ident", s: strings.ToLower(t)}, nil
	}
	return sqlExpr{}, fmt.Errorf("near %q: syntax error", t)
}

func (p *sqlParser) condAtom() (*sqlCond, error) {
	if p.peek() == "(" {
		p.next()
		c, err := p.condOr()
		if err != nil {
			return nil, err
		}
		if err := p.expect(")"); err != nil {
			return nil, err
		}
		return c, nil
	}
	l, err := p.expr()
	if err != nil {
		return nil, err
	}
	if p.kw("in") {
		if p.peek() != "(" {
			return nil, fmt.Errorf("near %q: syntax error", p.peek())
		}
		p.next()
		c := &sqlCond{op: "in", l: l}
		for {
			e, err := p.expr()
			if err != nil {
				return nil, err
			}
			c.list = append(c.list, e)
			if p.peek() == "," {
				p.next()
				continue
			}
			break
		}
		if err := p.expect(")"); err != nil {
			return nil, err
		}
		return c, nil
	}
	if err := p.expect("="); err != nil {
		return nil, err
	}
	r, err := p.expr()
	if err != nil {
		return nil, err
	}
	return &sqlCond{op: "=", l: l, r: r}, nil
}

func (p *sqlParser) condAnd() (*sqlCond, error) {
	c, err := p.condAtom()
	if err != nil {
		return nil, err
	}
	for p.kw("and") {
		r, err := p.condAtom()
		if err != nil {
			return nil, err
		}
		c = &sqlCond{op: "and", a: c, b: r}
	}
	return c, nil
}

func (p *sqlParser) condOr() (*sqlCond, error) {
	c, err := p.condAnd()
	if err != nil {
		return nil, err
	}
	for p.kw("or") {
		r, err := p.condAnd()
		if err != nil {
			return nil, err
		}
		c = &sqlCond{op: "or", a: c, b: r}
	}
	return c, nil
}

func (p *sqlParser) end() error {
	if p.peek() == ";" {
		p.next()
	}
	if p.i < len(p.toks) {
		return fmt.Errorf("near %q: syntax error", p.peek())
	}
	return nil
}

func sqlParse(text string) (*sqlQuery, error) {
	toks, err := sqlTokens(text)
	if err != nil {
		return nil, err
	}
	p := &sqlParser{toks: toks, q: &sqlQuery{}}
	q := p.q
	switch {
	case p.kw("create"):
		if p.kw("index") {
			q.kind = "index"
			return q, nil
		}
		if err := p.expect("table"); err != nil {
			return nil, err
		}
		if p.kw("if") {
			p.kw("not")
			p.kw("exists")
		}
		q.kind = "create"
		if q.table, err = p.name(); err != nil {
			return nil, err
		}
		if err := p.expect("("); err != nil {
			return nil, err
		}
		for {
			cn, err := p.name()
			if err != nil {
				return nil, err
			}
			cd := sqlColDef{name: cn}
			for p.peek() != "," && p.peek() != ")" && p.peek() != "" {
				t := strings.ToLower(p.next())
				switch t {
				case "primary":
					cd.pk = true
				case "not":
					if strings.EqualFold(p.peek(), "null") {
						cd.notNull = true
					}
				}
			}
			q.colDefs = append(q.colDefs, cd)
			if p.peek() == "," {
				p.next()
				continue
			}
			break
		}
		if err := p.expect(")"); err != nil {
			return nil, err
		}
		return q, p.end()
	case p.kw("insert"):
		q.kind = "insert"
		if err := p.expect("into"); err != nil {
			return nil, err
		}
		if q.table, err = p.name(); err != nil {
			return nil, err
		}
		if err := p.expect("("); err != nil {
			return nil, err
		}
		for {
			c, err := p.name()
			if err != nil {
				return nil, err
			}
			q.cols = append(q.cols, c)
			if p.peek() == "," {
				p.next()
				continue
			}
			break
		}
		if err := p.expect(")"); err != nil {
			return nil, err
		}
		if err := p.expect("values"); err != nil {
			return nil, err
		}
		if err := p.expect("("); err != nil {
			return nil, err
		}
		for {
			e, err := p.expr()
			if err != nil {
				return nil, err
			}
			q.vals = append(q.vals, e)
			if p.peek() == "," {
				p.next()
				continue
			}
			break
		}
		if err := p.expect(")"); err != nil {
			return nil, err
		}
		if len(q.vals) != len(q.cols) {
			return nil, fmt.Errorf("%d values for %d columns", len(q.vals), len(q.cols))
		}
		return q, p.end()
	case p.kw("update"):
		q.kind = "update"
		if q.table, err = p.name(); err != nil {
			return nil, err
		}
		if err := p.expect("set"); err != nil {
			return nil, err
		}
		for {
			c, err := p.name()
			if err != nil {
				return nil, err
			}
			if err := p.expect("="); err != nil {
				return nil, err
			}
			e, err := p.expr()
			if err != nil {
				return nil, err
			}
			q.sets = append(q.sets, sqlSet{c, e})
			if p.peek() == "," {
				p.next()
				continue
			}
			break
		}
		if p.kw("where") {
			if q.where, err = p.condOr(); err != nil {
				return nil, err
			}
		}
		return q, p.end()
	case p.kw("delete"):
		q.kind = "delete"
		if err := p.expect("from"); err != nil {
			return nil, err
		}
		if q.table, err = p.name(); err != nil {
			return nil, err
		}
		if p.kw("where") {
			if q.where, err = p.condOr(); err != nil {
				return nil, err
			}
		}
		return q, p.end()
	case p.kw("select"):
		q.kind = "select"
		if strings.EqualFold(p.peek(), "count") {
			p.next()
			if p.next() != "(" || p.next() != "*" || p.next() != ")" {
				return nil, fmt.Errorf("near COUNT: syntax error")
			}
			q.count = true
		} else {
			for {
				c, err := p.name()
				if err != nil {
					return nil, err
				}
				q.cols = append(q.cols, c)
				if p.peek() == "," {
					p.next()
					continue
				}
				break
			}
		}
		if err := p.expect("from"); err != nil {
			return nil, err
		}
		if q.table, err = p.name(); err != nil {
			return nil, err
		}
		if p.kw("where") {
			if q.where, err = p.condOr(); err != nil {
				return nil, err
			}
		}
		if p.kw("order") {
			if err := p.expect("by"); err != nil {
				return nil, err
			}
			if q.orderCol, err = p.name(); err != nil {
				return nil, err
			}
			if p.kw("desc") {
				q.desc = true
			} else {
				p.kw("asc")
			}
		}
		if p.kw("limit") {
			e, err := p.expr()
			if err != nil {
				return nil, err
			}
			q.limit = &e
		}
		return q, p.end()
	}
	return nil, fmt.Errorf("near %q: syntax error", p.peek())
}

// ---------- evaluation ----------

func (it *Interp) sqlEvalExpr(st *sqlStmt, e sqlExpr, row *sqlRow, t *sqlTable) (sqlVal, error) {
	switch e.kind {
	case "param":
		if v, ok := st.binds[e.s]; ok {
			return v, nil
		}
		return sqlVal{k: 'n'}, nil
	case "str":
		return sqlVal{k: 't', s: e.s}, nil
	case "int":
		return sqlVal{k: 'i', i: mkInt(uint64(e.n), 64, true)}, nil
	case "ident":
		if row == nil {
			return sqlVal{}, fmt.Errorf("no such column: %s", e.s)
		}
		found := false
		for _, c := range t.cols {
			if c.name == e.s {
				found = true
			}
		}
		if !found {
			return sqlVal{}, fmt.Errorf("no such column: %s", e.s)
		}
		if v, ok := row.vals[e.s]; ok {
			return v, nil
		}
		return sqlVal{k: 'n'}, nil
	case "coalesce":
		for _, a := range e.args {
			v, err := it.sqlEvalExpr(st, a, row, t)
			if err != nil {
				return sqlVal{}, err
			}
			if v.k != 'n' {
				return v, nil
			}
		}
		return sqlVal{k: 'n'}, nil
	}
	return sqlVal{}, fmt.Errorf("bad expression")
}

// sqlEq: SQLite equality for the storage classes that occur. NULL compares unequal to everything;
// values of different storage classes are never equal (no affinity conversion is needed by the statements modelled).
func (it *Interp) sqlEq(a, b sqlVal) *smt.Term {
	if a.k == 'n' || b.k == 'n' || a.k != b.k {
		return smt.False
	}
	switch a.k {
	case 'i':
		return smt.Eq(a.i.Term(), b.i.Term())
	case 't':
		return smt.Bool(a.s == b.s)
	}
	if len(a.b) != len(b.b) {
		return smt.False
	}
	r := smt.True
	for i := range a.b {
		r = smt.And(r, smt.Eq(a.b[i].(IntV).Term(), b.b[i].(IntV).Term()))
	}
	return r
}

func (it *Interp) sqlCondTerm(st *sqlStmt, c *sqlCond, row *sqlRow, t *sqlTable) (*smt.Term, error) {
	if c == nil {
		return smt.True, nil
	}
	switch c.op {
	case "and", "or":
		a, err := it.sqlCondTerm(st, c.a, row, t)
		if err != nil {
			return nil, err
		}
		b, err := it.sqlCondTerm(st, c.b, row, t)
		if err != nil {
			return nil, err
		}
		if c.op == "and" {
			return smt.And(a, b), nil
		}
		return smt.Or(a, b), nil
	case "=":
		l, err := it.sqlEvalExpr(st, c.l, row, t)
		if err != nil {
			return nil, err
		}
		r, err := it.sqlEvalExpr(st, c.r, row, t)
		if err != nil {
			return nil, err
		}
		return it.sqlEq(l, r), nil
	case "in":
		l, err := it.sqlEvalExpr(st, c.l, row, t)
		if err != nil {
			return nil, err
		}
		res := smt.False
		for _, e := range c.list {
			r, err := it.sqlEvalExpr(st, e, row, t)
			if err != nil {
				return nil, err
			}
			res = smt.Or(res, it.sqlEq(l, r))
		}
		return res, nil
	}
	return nil, fmt.Errorf("bad condition")
}

func (it *Interp) sqlErr(msg string) Value { return it.newErrorString("sqlite: " + msg) }

// sqlExec runs the statement (first Step).
func (it *Interp) sqlExec(st *sqlStmt) Value {
	if st.bindErr != "" {
		return it.sqlErr(st.bindErr)
	}
	db := st.conn.pool.db
	q := st.q
	switch q.kind {
	case "index":
		return nil
	case "create":
		if _, ok := db.tables[q.table]; !ok {
			db.tables[q.table] = &sqlTable{name: q.table, cols: q.colDefs}
			db.order = append(db.order, q.table)
		}
		return nil
	}
	t := db.tables[q.table]
	if t == nil {
		return it.sqlErr("no such table: " + q.table)
	}
	hasCol := func(c string) bool {
		for _, d := range t.cols {
			if d.name == c {
				return true
			}
		}
		return false
	}
	write := func() {
		if len(st.conn.snaps) == 0 {
			st.conn.writesOutside++
		} else {
			st.conn.writesInside++
		}
	}
	switch q.kind {
	case "insert":
		row := &sqlRow{vals: map[string]sqlVal{}}
		for i, c := range q.cols {
			if !hasCol(c) {
				return it.sqlErr(fmt.Sprintf("table %s has no column named %s", q.table, c))
			}
			v, err := it.sqlEvalExpr(st, q.vals[i], nil, t)
			if err != nil {
				return it.sqlErr(err.Error())
			}
			row.vals[c] = v
		}
		for _, d := range t.cols {
			v, ok := row.vals[d.name]
			if (!ok || v.k == 'n') && d.notNull {
				return it.sqlErr(fmt.Sprintf("NOT NULL constraint failed: %s.%s", q.table, d.name))
			}
			if d.pk && ok {
				for _, r := range t.rows {
					if it.branch(boolFromTerm(it.sqlEq(r.vals[d.name], v))) {
						return it.sqlErr(fmt.Sprintf("UNIQUE constraint failed: %s.%s", q.table, d.name))
					}
				}
			}
		}
		write()
		t.rows = append(t.rows, row)
		return nil
	case "update":
		for _, s := range q.sets {
			if !hasCol(s.col) {
				return it.sqlErr("no such column: " + s.col)
			}
		}
		for _, r := range t.rows {
			c, err := it.sqlCondTerm(st, q.where, r, t)
			if err != nil {
				return it.sqlErr(err.Error())
			}
			if it.branch(boolFromTerm(c)) {
				for _, s := range q.sets {
					v, err := it.sqlEvalExpr(st, s.e, r, t)
					if err != nil {
						return it.sqlErr(err.Error())
					}
					for _, d := range t.cols {
						if d.name == s.col && d.notNull && v.k == 'n' {
							return it.sqlErr(fmt.Sprintf("NOT NULL constraint failed: %s.%s", q.table, d.name))
						}
					}
					r.vals[s.col] = v
				}
			}
		}
		write()
		return nil
	case "delete":
		var keep []*sqlRow
		for _, r := range t.rows {
			c, err := it.sqlCondTerm(st, q.where, r, t)
			if err != nil {
				return it.sqlErr(err.Error())
			}
			if !it.branch(boolFromTerm(c)) {
				keep = append(keep, r)
			}
		}
		write()
		t.rows = keep
		return nil
	case "select":
		for _, c := range q.cols {
			if !hasCol(c) {
				return it.sqlErr("no such column: " + c)
			}
		}
		if q.orderCol != "" && !hasCol(q.orderCol) {
			return it.sqlErr("no such column: " + q.orderCol)
		}
		if q.count {
			sum := smt.Const(0, 64)
			for _, r := range t.rows {
				c, err := it.sqlCondTerm(st, q.where, r, t)
				if err != nil {
					return it.sqlErr(err.Error())
				}
				sum = smt.Bin("bvadd", sum, smt.Ite(c, smt.Const(1, 64), smt.Const(0, 64)))
			}
			cv := intFromTerm(sum, true)
			st.countV = &cv
			st.rows = []*sqlRow{{vals: map[string]sqlVal{}}}
			return nil
		}
		var rows []*sqlRow
		for _, r := range t.rows {
			c, err := it.sqlCondTerm(st, q.where, r, t)
			if err != nil {
				return it.sqlErr(err.Error())
			}
			if it.branch(boolFromTerm(c)) {
				rows = append(rows, r)
			}
		}
		if q.orderCol != "" {
			// insertion sort; comparisons on symbolic integers fork
			sorted := []*sqlRow{}
			for _, r := range rows {
				pos := len(sorted)
				for pos > 0 {
					a, b := sorted[pos-1].vals[q.orderCol], r.vals[q.orderCol]
					if a.k != 'i' || b.k != 'i' {
						break
					}
					op := "bvsgt" // ascending: move left while previous > r
					if q.desc {
						op = "bvslt"
					}
					if !it.branch(boolFromTerm(smt.Cmp(op, a.i.Term(), b.i.Term()))) {
						break
					}
					pos--
				}
				sorted = append(sorted, nil)
				copy(sorted[pos+1:], sorted[pos:])
				sorted[pos] = r
			}
			rows = sorted
		}
		if q.limit != nil {
			lv, err := it.sqlEvalExpr(st, *q.limit, nil, t)
			if err != nil {
				return it.sqlErr(err.Error())
			}
			if lv.k == 'i' {
				if !it.branch(boolFromTerm(smt.Cmp("bvslt", lv.i.Term(), smt.Const(0, 64)))) {
					for k := 0; k < len(rows); k++ {
						if it.branch(boolFromTerm(smt.Cmp("bvsle", lv.i.Term(), smt.Const(uint64(k), 64)))) {
							rows = rows[:k]
							break
						}
					}
				}
			}
		}
		// result rows are snapshots (a later write on the same connection does not change what was read)
		for _, r := range rows {
			nr := &sqlRow{vals: map[string]sqlVal{}}
			for c, v := range r.vals {
				nr.vals[c] = v
			}
			st.rows = append(st.rows, nr)
		}
		return nil
	}
	return it.sqlErr("unsupported statement")
}

// ---------- intrinsics ----------

func sqlStmtOf(v Value) *sqlStmt {
	n, _ := v.(*Native)
	if n == nil {
		panic(nilStmtUse{})
	}
	return n.Obj.(*sqlStmt)
}

func sqlConnOf(v Value) *sqlConn {
	n, _ := v.(*Native)
	if n == nil {
		panic(pathEnd{Kind: "fault", Label: "nil-conn", Msg: "method called on nil *sqlite.Conn"})
	}
	return n.Obj.(*sqlConn)
}

func (it *Interp) sqlBytesVal(v Value) sqlVal {
	s, _ := v.(SliceV)
	return sqlVal{k: 'b', b: append([]Value{}, s.S...)}
}

func (it *Interp) sqlBind(st *sqlStmt, name string, v sqlVal) {
	known := false
	for _, p := range st.q.params {
		if p == name {
			known = true
		}
	}
	if !known {
		if st.bindErr == "" {
			st.bindErr = "unknown parameter: " + name
		}
		return
	}
	st.binds[name] = v
}

// nilStmtUse: a method was called on a nil *sqlite.Stmt (zombiezen dereferences it: process panic).
type nilStmtUse struct{}

// sqlFault lets a statement fail at this site when the harness enabled fault injection.
func (it *Interp) sqlFault(site string) bool {
	if !it.sqlFaults || it.sqlInjected >= 1 {
		return false // at most one injected failure per run (stated bound)
	}
	b := BoolV{T: it.freshVar("fault:"+site, 0)}
	if it.branch(b) {
		it.facts["i:fault_at"] = site
		it.sqlInjected++
		return true
	}
	return false
}

func init() {
	const sq = "zombiezen.com/go/sqlite"
	const sx = "zombiezen.com/go/sqlite/sqlitex"
	reg(sx+".NewPool", func(it *Interp, g *G, fr *Frame, a []Value, cc *ssa.CallCommon) (Value, status) {
		p := &sqlPool{db: &sqlDB{tables: map[string]*sqlTable{}}}
		p.conn = &sqlConn{pool: p}
		it.sqlPools = append(it.sqlPools, p)
		return Tuple{&Native{Kind: "sqlpool", Obj: p}, Iface{}}, stOK
	})
	reg("(*"+sx+".Pool).Take", func(it *Interp, g *G, fr *Frame, a []Value, cc *ssa.CallCommon) (Value, status) {
		p := a[0].(*Native).Obj.(*sqlPool)
		if p.taken {
			// a blocking pool of one connection
			if c := ctxOf(a[1]); c != nil && !isNilValue(it.ctxErrOf(c)) {
				return Tuple{(*Native)(nil), it.ctxErrOf(c)}, stOK
			}
			it.block(g, "sqlitex.Pool.Take", func() bool { return !p.taken })
			return nil, stBlock
		}
		p.taken = true
		return Tuple{&Native{Kind: "sqlconn", Obj: p.conn}, Iface{}}, stOK
	})
	switchClasses["(*"+sx+".Pool).Take"] = "lock"
	reg("(*"+sx+".Pool).Put", func(it *Interp, g *G, fr *Frame, a []Value, cc *ssa.CallCommon) (Value, status) {
		p := a[0].(*Native).Obj.(*sqlPool)
		if n, _ := a[1].(*Native); n == nil {
			return nil, stOK
		}
		p.taken = false
		return nil, stOK
	})
	reg("(*"+sx+".Pool).Close", func(it *Interp, g *G, fr *Frame, a []Value, cc *ssa.CallCommon) (Value, status) {
		return Iface{}, stOK
	})
	reg("(*"+sq+".Conn).Close", func(it *Interp, g *G, fr *Frame, a []Value, cc *ssa.CallCommon) (Value, status) {
		return Iface{}, stOK
	})
	reg("(*"+sq+".Conn).Prepare", func(it *Interp, g *G, fr *Frame, a []Value, cc *ssa.CallCommon) (Value, status) {
		c := sqlConnOf(a[0])
		text := concStr(a[1])
		if it.sqlFault("prepare") {
			return Tuple{(*Native)(nil), it.sqlErr("injected prepare failure")}, stOK
		}
		q, err := sqlParse(text)
		if err != nil {
			return Tuple{(*Native)(nil), it.sqlErr("prepare: " + err.Error())}, stOK
		}
		it.sqlTexts[strings.Join(strings.Fields(text), " ")] = true
		return Tuple{&Native{Kind: "sqlstmt", Obj: &sqlStmt{conn: c, text: text, q: q, binds: map[string]sqlVal{}}}, Iface{}}, stOK
	})
	pre := "(*" + sq + ".Stmt)."
	reg(pre+"SetText", func(it *Interp, g *G, fr *Frame, a []Value, cc *ssa.CallCommon) (Value, status) {
		it.sqlBind(sqlStmtOf(a[0]), concStr(a[1]), sqlVal{k: 't', s: concStr(a[2])})
		return nil, stOK
	})
	reg(pre+"SetInt64", func(it *Interp, g *G, fr *Frame, a []Value, cc *ssa.CallCommon) (Value, status) {
		it.sqlBind(sqlStmtOf(a[0]), concStr(a[1]), sqlVal{k: 'i', i: a[2].(IntV)})
		return nil, stOK
	})
	reg(pre+"SetBytes", func(it *Interp, g *G, fr *Frame, a []Value, cc *ssa.CallCommon) (Value, status) {
		it.sqlBind(sqlStmtOf(a[0]), concStr(a[1]), it.sqlBytesVal(a[2]))
		return nil, stOK
	})
	reg(pre+"SetNull", func(it *Interp, g *G, fr *Frame, a []Value, cc *ssa.CallCommon) (Value, status) {
		it.sqlBind(sqlStmtOf(a[0]), concStr(a[1]), sqlVal{k: 'n'})
		return nil, stOK
	})
	reg(pre+"SetBool", func(it *Interp, g *G, fr *Frame, a []Value, cc *ssa.CallCommon) (Value, status) {
		b := a[2].(BoolV)
		it.sqlBind(sqlStmtOf(a[0]), concStr(a[1]), sqlVal{k: 'i', i: intFromTerm(smt.Ite(b.Term(), smt.Const(1, 64), smt.Const(0, 64)), true)})
		return nil, stOK
	})
	reg(pre+"Step", func(it *Interp, g *G, fr *Frame, a []Value, cc *ssa.CallCommon) (Value, status) {
		st := sqlStmtOf(a[0])
		if !st.done {
			st.done = true
			if it.sqlFault("step") {
				return Tuple{BoolV{}, it.sqlErr("injected step failure")}, stOK
			}
			if e := it.sqlExec(st); e != nil {
				return Tuple{BoolV{}, e}, stOK
			}
		}
		if st.pos < len(st.rows) {
			st.cur = st.rows[st.pos]
			st.pos++
			return Tuple{BoolV{C: true}, Iface{}}, stOK
		}
		st.cur = nil
		return Tuple{BoolV{C: false}, Iface{}}, stOK
	})
	col := func(it *Interp, st *sqlStmt, name string) sqlVal {
		if st.cur == nil {
			panic(unsupported("column %q read without a current row", name))
		}
		found := false
		for _, c := range st.q.cols {
			if c == name {
				found = true
			}
		}
		if !found {
			// zombiezen panics on an unknown column name
			it.fault("panic", "unknown-column", "sqlite: unknown column name: "+name, nil)
		}
		v, ok := st.cur.vals[name]
		if !ok {
			return sqlVal{k: 'n'}
		}
		return v
	}
	reg(pre+"GetText", func(it *Interp, g *G, fr *Frame, a []Value, cc *ssa.CallCommon) (Value, status) {
		v := col(it, sqlStmtOf(a[0]), concStr(a[1]))
		switch v.k {
		case 't':
			return v.s, stOK
		case 'n':
			return "", stOK
		case 'i':
			return it.render(v.i, nil), stOK
		}
		bs := make([]byte, len(v.b))
		for i, c := range v.b {
			bs[i] = byte(it.concretize(c.(IntV), "blob as text", 2).C)
		}
		return string(bs), stOK
	})
	reg(pre+"GetInt64", func(it *Interp, g *G, fr *Frame, a []Value, cc *ssa.CallCommon) (Value, status) {
		v := col(it, sqlStmtOf(a[0]), concStr(a[1]))
		if v.k == 'i' {
			return v.i, stOK
		}
		return mkInt(0, 64, true), stOK
	})
	reg(pre+"GetLen", func(it *Interp, g *G, fr *Frame, a []Value, cc *ssa.CallCommon) (Value, status) {
		v := col(it, sqlStmtOf(a[0]), concStr(a[1]))
		switch v.k {
		case 't':
			return goInt(len(v.s)), stOK
		case 'b':
			return goInt(len(v.b)), stOK
		}
		return goInt(0), stOK
	})
	reg(pre+"GetBytes", func(it *Interp, g *G, fr *Frame, a []Value, cc *ssa.CallCommon) (Value, status) {
		v := col(it, sqlStmtOf(a[0]), concStr(a[1]))
		dst := a[2].(SliceV)
		var src []Value
		switch v.k {
		case 'b':
			src = v.b
		case 't':
			for i := 0; i < len(v.s); i++ {
				src = append(src, mkInt(uint64(v.s[i]), 8, false))
			}
		}
		n := len(dst.S)
		if len(src) < n {
			n = len(src)
		}
		copy(dst.S, src[:n])
		return goInt(n), stOK
	})
	reg(pre+"ColumnInt", func(it *Interp, g *G, fr *Frame, a []Value, cc *ssa.CallCommon) (Value, status) {
		st := sqlStmtOf(a[0])
		if st.countV != nil {
			return *st.countV, stOK
		}
		i := int(cint(a[1]))
		if st.cur == nil || i >= len(st.q.cols) {
			return goInt(0), stOK
		}
		v := st.cur.vals[st.q.cols[i]]
		if v.k == 'i' {
			return v.i, stOK
		}
		return goInt(0), stOK
	})
	reg(pre+"BindParamCount", func(it *Interp, g *G, fr *Frame, a []Value, cc *ssa.CallCommon) (Value, status) {
		return goInt(len(sqlStmtOf(a[0]).q.params)), stOK
	})

	// helpers called by the Go-source models of sqlitex.Execute / Transaction (internal/zzverif/models)
	mp := RepoModule + "/internal/zzverif/models."
	reg(mp+"sqlBindArg", func(it *Interp, g *G, fr *Frame, a []Value, cc *ssa.CallCommon) (Value, status) {
		st := sqlStmtOf(a[0])
		i := int(cint(a[1])) // 1-based position
		if i < 1 || i > len(st.q.params) {
			return it.sqlErr(fmt.Sprintf("sqlitex: too many arguments (%d > %d)", i, len(st.q.params))), stOK
		}
		st.binds[st.q.params[i-1]] = it.sqlArgVal(a[2].(Iface))
		return Iface{}, stOK
	})
	reg(mp+"sqlBindNamed", func(it *Interp, g *G, fr *Frame, a []Value, cc *ssa.CallCommon) (Value, status) {
		st := sqlStmtOf(a[0])
		name := concStr(a[1])
		for _, p := range st.q.params {
			if p == name {
				st.binds[name] = it.sqlArgVal(a[2].(Iface))
				return Iface{}, stOK
			}
		}
		return it.sqlErr("sqlitex: unknown argument " + name), stOK
	})
	reg(mp+"sqlMissing", func(it *Interp, g *G, fr *Frame, a []Value, cc *ssa.CallCommon) (Value, status) {
		st := sqlStmtOf(a[0])
		for _, p := range st.q.params {
			if _, ok := st.binds[p]; !ok {
				return it.sqlErr("sqlitex: missing argument for " + p), stOK
			}
		}
		return Iface{}, stOK
	})
	reg(mp+"sqlBegin", func(it *Interp, g *G, fr *Frame, a []Value, cc *ssa.CallCommon) (Value, status) {
		c := sqlConnOf(a[0])
		c.snaps = append(c.snaps, c.pool.db.clone())
		return nil, stOK
	})
	reg(mp+"sqlEnd", func(it *Interp, g *G, fr *Frame, a []Value, cc *ssa.CallCommon) (Value, status) {
		c := sqlConnOf(a[0])
		commit := a[1].(BoolV)
		if len(c.snaps) == 0 {
			panic(unsupported("transaction end without begin"))
		}
		snap := c.snaps[len(c.snaps)-1]
		c.snaps = c.snaps[:len(c.snaps)-1]
		if !it.branch(commit) {
			c.pool.db = snap
		}
		return nil, stOK
	})

	// observation points for harnesses
	reg(apiPkg+"SQLFaults", func(it *Interp, g *G, fr *Frame, a []Value, cc *ssa.CallCommon) (Value, status) {
		it.sqlFaults = a[0].(BoolV).C
		return nil, stOK
	})
	reg(apiPkg+"SQLInjected", func(it *Interp, g *G, fr *Frame, a []Value, cc *ssa.CallCommon) (Value, status) {
		return goInt(it.sqlInjected), stOK
	})
	reg(apiPkg+"SQLRowCount", func(it *Interp, g *G, fr *Frame, a []Value, cc *ssa.CallCommon) (Value, status) {
		// number of rows in table a[0] whose column a[1] holds text a[2] ("" column: all rows)
		n := 0
		tn, cn, want := concStr(a[0]), concStr(a[1]), concStr(a[2])
		for _, p := range it.sqlPools {
			if t := p.db.tables[tn]; t != nil {
				for _, r := range t.rows {
					if cn == "" {
						n++
						continue
					}
					if v := r.vals[cn]; v.k == 't' && v.s == want {
						n++
					}
				}
			}
		}
		return goInt(n), stOK
	})
	reg(apiPkg+"SQLWritesOutsideTx", func(it *Interp, g *G, fr *Frame, a []Value, cc *ssa.CallCommon) (Value, status) {
		n := 0
		for _, p := range it.sqlPools {
			n += p.conn.writesOutside
		}
		return goInt(n), stOK
	})
	reg(apiPkg+"SQLOpenTx", func(it *Interp, g *G, fr *Frame, a []Value, cc *ssa.CallCommon) (Value, status) {
		n := 0
		for _, p := range it.sqlPools {
			n += len(p.conn.snaps)
		}
		return goInt(n), stOK
	})
	reg(apiPkg+"SQLConnTaken", func(it *Interp, g *G, fr *Frame, a []Value, cc *ssa.CallCommon) (Value, status) {
		for _, p := range it.sqlPools {
			if p.taken {
				return BoolV{C: true}, stOK
			}
		}
		return BoolV{C: false}, stOK
	})
}

// sqlArgVal maps a Go value to an SQLite value by sqlitex's own rule (setArg).
func (it *Interp) sqlArgVal(v Iface) sqlVal {
	if v.T == nil {
		return sqlVal{k: 'n'}
	}
	switch x := v.V.(type) {
	case IntV:
		return sqlVal{k: 'i', i: intFromTerm(smt.Resize(x.Term(), 64, x.S), true)}
	case BoolV:
		return sqlVal{k: 'i', i: intFromTerm(smt.Ite(x.Term(), smt.Const(1, 64), smt.Const(0, 64)), true)}
	case string:
		return sqlVal{k: 't', s: x}
	case SliceV:
		if len(x.S) == 0 {
			return sqlVal{k: 'b'}
		}
		if _, ok := x.S[0].(IntV); ok {
			return sqlVal{k: 'b', b: append([]Value{}, x.S...)}
		}
	}
	// anything else is bound as TEXT of fmt.Sprint(v)
	return sqlVal{k: 't', s: it.renderTyped(v.V, v.T)}
}

// ---------- JSON as opaque tokens ----------

type jsonTok struct {
	t Value // Iface: the marshalled value (deep copy)
}

func (it *Interp) hasChanOrFunc(v Value, depth int) bool {
	if depth > 8 {
		return false
	}
	switch x := v.(type) {
	case *Chan:
		return x != nil
	case *Closure:
		return x != nil
	case Iface:
		return it.hasChanOrFunc(x.V, depth+1)
	case *Value:
		if x != nil {
			return it.hasChanOrFunc(*x, depth+1)
		}
	case StructV:
		for _, f := range x {
			if it.hasChanOrFunc(f, depth+1) {
				return true
			}
		}
	case ArrayV:
		for _, f := range x {
			if it.hasChanOrFunc(f, depth+1) {
				return true
			}
		}
	case SliceV:
		for _, f := range x.S {
			if it.hasChanOrFunc(f, depth+1) {
				return true
			}
		}
	}
	return false
}

func init() {
	const js = "github.com/go-json-experiment/json"
	reg(js+".Marshal", func(it *Interp, g *G, fr *Frame, a []Value, cc *ssa.CallCommon) (Value, status) {
		v := a[0].(Iface)
		if it.hasChanOrFunc(v, 0) {
			return Tuple{SliceV{Nil: true}, it.newErrorString("json: cannot marshal a value holding a channel or function")}, stOK
		}
		if it.sqlFault("marshal") {
			return Tuple{SliceV{Nil: true}, it.newErrorString("json: injected marshal failure")}, stOK
		}
		it.jsonSeq++
		id := it.jsonSeq
		it.jsonToks[id] = &jsonTok{t: it.deepCopy(v, map[any]any{})}
		bs := []byte(fmt.Sprintf("\x00json#%06d", id))
		out := make([]Value, len(bs))
		for i, b := range bs {
			out[i] = mkInt(uint64(b), 8, false)
		}
		return Tuple{SliceV{S: out}, Iface{}}, stOK
	})
	reg(js+".Unmarshal", func(it *Interp, g *G, fr *Frame, a []Value, cc *ssa.CallCommon) (Value, status) {
		src, _ := a[0].(SliceV)
		bs := make([]byte, len(src.S))
		for i, c := range src.S {
			iv := c.(IntV)
			if iv.T != nil {
				panic(unsupported("json.Unmarshal of symbolic bytes"))
			}
			bs[i] = byte(iv.C)
		}
		s := string(bs)
		var id int
		if n, _ := fmt.Sscanf(s, "\x00json#%06d", &id); n != 1 {
			return it.newErrorString("json: syntax error (not produced by Marshal)"), stOK
		}
		tok := it.jsonToks[id]
		if tok == nil {
			return it.newErrorString("json: unknown token"), stOK
		}
		stored := it.deepCopy(tok.t, map[any]any{}).(Iface)
		target := a[1].(Iface)
		pt, ok := target.T.Underlying().(*types.Pointer)
		if !ok || target.V == nil {
			return it.newErrorString("json: Unmarshal target is not a pointer"), stOK
		}
		dst := target.V.(*Value)
		if dst == nil {
			return it.newErrorString("json: Unmarshal into nil pointer"), stOK
		}
		et := pt.Elem()
		switch {
		case stored.T == nil:
			storeInto(dst, zero(et))
		case types.Identical(et, stored.T):
			storeInto(dst, stored.V)
		case types.IsInterface(et):
			// typed decode into the value the interface already holds (json v2 semantics), else the value itself
			storeInto(dst, Iface{T: stored.T, V: stored.V})
		case types.Identical(target.T, stored.T):
			// Marshal(p) / Unmarshal(b, p) with p a pointer to the same struct type
			sp := stored.V.(*Value)
			if sp == nil {
				return it.newErrorString("json: null"), stOK
			}
			storeInto(dst, copyVal(*sp))
		default:
			return it.newErrorString(fmt.Sprintf("json: cannot unmarshal %s into %s", typeString(stored.T), typeString(et))), stOK
		}
		return Iface{}, stOK
	})
	reg("path/filepath.Join", pure(func(it *Interp, a []Value) Value { return strings.Join(strSlice(a[0]), "/") }))
	reg("testing.Testing", pure(func(it *Interp, a []Value) Value { return BoolV{C: false} }))
}
