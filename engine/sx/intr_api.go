package sx

import (
	"fmt"
	"go/types"
	"strings"

	"gosx/smt"

	"golang.org/x/tools/go/ssa"
)

const apiPkg = RepoModule + "/internal/zzverif/api."

var intrinsics = map[string]Intrinsic{}

// switchClasses maps intrinsic names to preemption classes.
var switchClasses = map[string]string{}

// modelTable maps callee names to functions of the overlay package internal/zzverif/models.
var modelTable = map[string]string{}

func reg(name string, h Intrinsic) { intrinsics[name] = h }

func ok(v Value) (Value, status) { return v, stOK }

func (it *Interp) nondet(name string, w int, signed bool) IntV {
	if it.Cfg.Concrete != nil {
		n := it.varSeq[name]
		it.varSeq[name] = n + 1
		full := name
		if n > 0 {
			full = fmt.Sprintf("%s#%d", name, n)
		}
		return mkInt(uint64(it.Cfg.Concrete[full]), w, signed)
	}
	return IntV{T: it.freshVar(name, w), W: uint8(w), S: signed}
}

func argStr(v Value) string {
	s, _ := v.(string)
	return s
}

func init() {
	reg(apiPkg+"Symbolic", func(it *Interp, g *G, fr *Frame, a []Value, cc *ssa.CallCommon) (Value, status) {
		return ok(BoolV{C: true})
	})
	reg(apiPkg+"NondetInt", func(it *Interp, g *G, fr *Frame, a []Value, cc *ssa.CallCommon) (Value, status) {
		return ok(it.nondet(argStr(a[0]), 64, true))
	})
	reg(apiPkg+"NondetInt64", intrinsics[apiPkg+"NondetInt"])
	reg(apiPkg+"NondetDuration", intrinsics[apiPkg+"NondetInt"])
	reg(apiPkg+"NondetInt32", func(it *Interp, g *G, fr *Frame, a []Value, cc *ssa.CallCommon) (Value, status) {
		return ok(it.nondet(argStr(a[0]), 32, true))
	})
	reg(apiPkg+"NondetUint8", func(it *Interp, g *G, fr *Frame, a []Value, cc *ssa.CallCommon) (Value, status) {
		return ok(it.nondet(argStr(a[0]), 8, false))
	})
	reg(apiPkg+"NondetBool", func(it *Interp, g *G, fr *Frame, a []Value, cc *ssa.CallCommon) (Value, status) {
		name := argStr(a[0])
		if it.Cfg.Concrete != nil {
			v := it.nondet(name, 64, true)
			return ok(BoolV{C: v.C != 0})
		}
		return ok(BoolV{T: it.freshVar(name, 0)})
	})
	reg(apiPkg+"NondetTime", func(it *Interp, g *G, fr *Frame, a []Value, cc *ssa.CallCommon) (Value, status) {
		return ok(TimeV{NS: it.nondet(argStr(a[0]), 64, true)})
	})
	reg(apiPkg+"ClockTime", intrinsics[apiPkg+"NondetTime"])
	reg(apiPkg+"Choose", func(it *Interp, g *G, fr *Frame, a []Value, cc *ssa.CallCommon) (Value, status) {
		name := argStr(a[0])
		n := it.concInt(a[1], "Choose n")
		k := it.chooseSeq[name]
		it.chooseSeq[name] = k + 1
		full := "choose:" + name
		if k > 0 {
			full = fmt.Sprintf("choose:%s#%d", name, k)
		}
		var v int64
		if it.Cfg.ConcreteChoices != nil {
			v = it.Cfg.ConcreteChoices[full]
		} else {
			alts := make([]int64, n)
			for i := range alts {
				alts[i] = int64(i)
			}
			if n <= 0 {
				panic(pathEnd{Kind: "drop", Label: "choose-empty", Msg: name})
			}
			v = it.decide("choose", alts, nil)
		}
		it.choices[full] = v
		return ok(mkInt(uint64(v), 64, true))
	})
	reg(apiPkg+"Assume", func(it *Interp, g *G, fr *Frame, a []Value, cc *ssa.CallCommon) (Value, status) {
		c := a[0].(BoolV)
		it.flushAsserts() // assumptions are not retroactive
		if c.T == nil {
			if !c.C {
				panic(pathEnd{Kind: "drop", Label: "assume", Msg: "assumption false"})
			}
			return ok(nil)
		}
		if len(it.taken) >= len(it.prefix) {
			// beyond the replayed prefix: check feasibility so that the path condition stays satisfiable
			if !it.feasible(c.T) {
				panic(pathEnd{Kind: "drop", Label: "assume", Msg: "assumption infeasible"})
			}
		}
		it.addPC(c.T)
		return ok(nil)
	})
	reg(apiPkg+"Assert", func(it *Interp, g *G, fr *Frame, a []Value, cc *ssa.CallCommon) (Value, status) {
		c := a[0].(BoolV)
		label := argStr(a[1])
		it.nAsserts++
		if c.T == nil {
			if !c.C {
				it.recordViolation(&Violation{Kind: "assert", Label: label, Msg: "assertion fails on this path (condition is concretely false)", Where: it.callerWhere(g)}, nil)
			}
			return ok(nil)
		}
		it.deferAssert(c.T, label, it.callerWhere(g))
		return ok(nil)
	})
	reg(apiPkg+"Reach", func(it *Interp, g *G, fr *Frame, a []Value, cc *ssa.CallCommon) (Value, status) {
		it.reached[argStr(a[0])] = true
		return ok(nil)
	})
	reg(apiPkg+"Fact", func(it *Interp, g *G, fr *Frame, a []Value, cc *ssa.CallCommon) (Value, status) {
		it.facts[argStr(a[0])] = argStr(a[1])
		return ok(nil)
	})
	reg(apiPkg+"Event", func(it *Interp, g *G, fr *Frame, a []Value, cc *ssa.CallCommon) (Value, status) {
		it.trace = append(it.trace, "e:"+argStr(a[0]))
		return ok(nil)
	})
	reg(apiPkg+"Yield", func(it *Interp, g *G, fr *Frame, a []Value, cc *ssa.CallCommon) (Value, status) {
		it.trace = append(it.trace, "y:"+argStr(a[0]))
		return ok(nil)
	})
	switchClasses[apiPkg+"Yield"] = "yield"
	reg(apiPkg+"LogicalClock", func(it *Interp, g *G, fr *Frame, a []Value, cc *ssa.CallCommon) (Value, status) {
		it.clockLogical = true
		it.stubsSeen["clock: logical (strictly increasing concrete readings)"] = true
		return ok(nil)
	})
	reg(apiPkg+"ClockReading", func(it *Interp, g *G, fr *Frame, a []Value, cc *ssa.CallCommon) (Value, status) {
		k := int(cint(a[0]))
		if k < 0 || k >= len(it.clockReads) {
			panic(unsupported("ClockReading(%d): only %d readings so far", k, len(it.clockReads)))
		}
		return ok(TimeV{NS: it.clockReads[k]})
	})
	reg(apiPkg+"ClockReadings", func(it *Interp, g *G, fr *Frame, a []Value, cc *ssa.CallCommon) (Value, status) {
		return ok(goInt(len(it.clockReads)))
	})
	reg(apiPkg+"Cut", func(it *Interp, g *G, fr *Frame, a []Value, cc *ssa.CallCommon) (Value, status) {
		panic(pathEnd{Kind: "cut", Label: argStr(a[0]), Msg: "path cut by the harness bound"})
	})
	reg(apiPkg+"Quiesce", func(it *Interp, g *G, fr *Frame, a []Value, cc *ssa.CallCommon) (Value, status) {
		others := it.readyOthers(g)
		if len(others) == 0 {
			return ok(nil)
		}
		it.block(g, "quiesce", func() bool { return len(it.readyOthers(g)) == 0 })
		return nil, stBlock
	})
	reg(apiPkg+"Spawn", func(it *Interp, g *G, fr *Frame, a []Value, cc *ssa.CallCommon) (Value, status) {
		it.spawn(a[0], nil, fr)
		return ok(nil)
	})
	ite := func(it *Interp, g *G, fr *Frame, a []Value, cc *ssa.CallCommon) (Value, status) {
		c := a[0].(BoolV)
		switch x := a[1].(type) {
		case IntV:
			y := a[2].(IntV)
			return ok(intFromTerm(smt.Ite(c.Term(), x.Term(), y.Term()), x.S))
		case BoolV:
			y := a[2].(BoolV)
			return ok(boolFromTerm(smt.Ite(c.Term(), x.Term(), y.Term())))
		case TimeV:
			y := a[2].(TimeV)
			return ok(TimeV{NS: intFromTerm(smt.Ite(c.Term(), x.NS.Term(), y.NS.Term()), true)})
		}
		panic(unsupported("Ite on %T", a[1]))
	}
	reg(apiPkg+"IteInt", ite)
	reg(apiPkg+"IteInt64", ite)
	reg(apiPkg+"IteBool", ite)
	reg(apiPkg+"IteTime", ite)
	reg(apiPkg+"Concretize", func(it *Interp, g *G, fr *Frame, a []Value, cc *ssa.CallCommon) (Value, status) {
		x := a[0].(IntV)
		lo, hi := a[1].(IntV), a[2].(IntV)
		if x.T != nil {
			in := smt.And(smt.Cmp("bvsge", x.T, lo.Term()), smt.Cmp("bvsle", x.T, hi.Term()))
			if !it.branch(boolFromTerm(in)) {
				panic(pathEnd{Kind: "cut", Label: "concretize-range", Msg: "value outside the concretisation range"})
			}
		}
		return ok(it.concretize(x, "api.Concretize", int(hi.Int64()-lo.Int64())+1))
	})
	reg(apiPkg+"Bound", func(it *Interp, g *G, fr *Frame, a []Value, cc *ssa.CallCommon) (Value, status) {
		name := argStr(a[0])
		v := a[1].(IntV)
		if it.Cfg.Tier == "thorough" {
			v = a[2].(IntV)
		}
		if o, ok := it.Cfg.Bounds[name]; ok {
			v = mkInt(uint64(int64(o)), 64, true)
		}
		it.boundsUsed[name] = int(v.Int64())
		return ok(v)
	})
	reg(apiPkg+"ExpireDeadline", func(it *Interp, g *G, fr *Frame, a []Value, cc *ssa.CallCommon) (Value, status) {
		c := ctxOf(a[0])
		for x := c; x != nil; x = x.parent {
			if x.hasDeadline {
				it.cancelCtx(x, it.ctxErr("DeadlineExceeded"))
				return ok(nil)
			}
			if x.noCancel {
				break
			}
		}
		panic(unsupported("ExpireDeadline: context has no deadline"))
	})
	reg(apiPkg+"NoAlias", func(it *Interp, g *G, fr *Frame, a []Value, cc *ssa.CallCommon) (Value, status) {
		label := argStr(a[2])
		seen := map[any]bool{}
		it.collectMem(a[0], seen, map[any]bool{})
		what := it.sharesMem(a[1], seen, map[any]bool{}, "")
		it.nAsserts++
		if what != "" {
			it.recordViolation(&Violation{Kind: "assert", Label: label, Msg: "shared mutable memory at " + what, Where: it.callerWhere(g)}, nil)
		}
		return ok(nil)
	})
	reg(apiPkg+"DeepCopy", func(it *Interp, g *G, fr *Frame, a []Value, cc *ssa.CallCommon) (Value, status) {
		return ok(it.deepCopy(a[0], map[any]any{}))
	})
}

func (it *Interp) callerWhere(g *G) string {
	if len(g.stack) == 0 {
		return ""
	}
	return it.where(g.stack[len(g.stack)-1])
}

// collectMem records every mutable memory object reachable from v.
func (it *Interp) collectMem(v Value, into map[any]bool, visited map[any]bool) {
	switch x := v.(type) {
	case *Value:
		if x == nil || visited[x] {
			return
		}
		visited[x] = true
		if s, ok := (*x).(StructV); !ok || len(s) > 0 {
			into[x] = true
		}
		it.collectMem(*x, into, visited)
	case StructV:
		for i := range x {
			it.collectMem(x[i], into, visited)
		}
	case ArrayV:
		for i := range x {
			it.collectMem(x[i], into, visited)
		}
	case SliceV:
		if x.Nil || cap(x.S) == 0 {
			return
		}
		full := x.S[:cap(x.S)]
		into[&full[0]] = true
		for i := range x.S {
			into[&x.S[i]] = true
			it.collectMem(x.S[i], into, visited)
		}
	case *MapV:
		if x == nil || visited[x] {
			return
		}
		visited[x] = true
		into[x] = true
		for _, e := range x.M {
			it.collectMem(e.V, into, visited)
		}
	case Iface:
		it.collectMem(x.V, into, visited)
	}
}

func (it *Interp) sharesMem(v Value, in map[any]bool, visited map[any]bool, path string) string {
	switch x := v.(type) {
	case *Value:
		if x == nil || visited[x] {
			return ""
		}
		visited[x] = true
		if in[x] {
			return path + "*"
		}
		return it.sharesMem(*x, in, visited, path+"*")
	case StructV:
		for i := range x {
			if r := it.sharesMem(x[i], in, visited, fmt.Sprintf("%s.f%d", path, i)); r != "" {
				return r
			}
		}
	case ArrayV:
		for i := range x {
			if r := it.sharesMem(x[i], in, visited, fmt.Sprintf("%s[%d]", path, i)); r != "" {
				return r
			}
		}
	case SliceV:
		if x.Nil || cap(x.S) == 0 {
			return ""
		}
		full := x.S[:cap(x.S)]
		for i := range full {
			if in[&full[i]] {
				return fmt.Sprintf("%s[backing %d]", path, i)
			}
		}
		for i := range x.S {
			if r := it.sharesMem(x.S[i], in, visited, fmt.Sprintf("%s[%d]", path, i)); r != "" {
				return r
			}
		}
	case *MapV:
		if x == nil || visited[x] {
			return ""
		}
		visited[x] = true
		if in[x] {
			return path + "(map)"
		}
		for _, e := range x.M {
			if r := it.sharesMem(e.V, in, visited, path+"[k]"); r != "" {
				return r
			}
		}
	case Iface:
		return it.sharesMem(x.V, in, visited, path)
	}
	return ""
}

// deepCopy copies the object graph reachable from v (model of deep.MustCopy and of a vault Read).
func (it *Interp) deepCopy(v Value, memo map[any]any) Value {
	switch x := v.(type) {
	case *Value:
		if x == nil {
			return x
		}
		if n, ok := memo[x]; ok {
			return n.(*Value)
		}
		n := new(Value)
		memo[x] = n
		*n = it.deepCopy(*x, memo)
		return n
	case StructV:
		n := make(StructV, len(x))
		for i := range x {
			n[i] = it.deepCopy(x[i], memo)
		}
		return n
	case ArrayV:
		n := make(ArrayV, len(x))
		for i := range x {
			n[i] = it.deepCopy(x[i], memo)
		}
		return n
	case SliceV:
		if x.Nil {
			return x
		}
		n := make([]Value, len(x.S), len(x.S))
		for i := range x.S {
			n[i] = it.deepCopy(x.S[i], memo)
		}
		return SliceV{S: n}
	case *MapV:
		if x == nil {
			return x
		}
		if n, ok := memo[x]; ok {
			return n.(*MapV)
		}
		n := newMap(x.KT, x.VT)
		memo[x] = n
		for _, k := range x.Keys {
			e := x.M[k]
			n.set(it.deepCopy(e.K, memo), it.deepCopy(e.V, memo))
		}
		return n
	case Iface:
		return Iface{T: x.T, V: it.deepCopy(x.V, memo)}
	case Tuple:
		n := make(Tuple, len(x))
		for i := range x {
			n[i] = it.deepCopy(x[i], memo)
		}
		return n
	}
	return v
}

func typeString(t types.Type) string {
	return types.TypeString(t, func(p *types.Package) string { return p.Name() })
}

var _ = strings.Contains
