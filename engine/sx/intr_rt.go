package sx

import (
	"fmt"
	"go/types"

	"gosx/smt"

	"golang.org/x/tools/go/ssa"
)

// ---------- clock ----------

// clockRead returns a fresh reading of the symbolic clock: >= the previous reading, within [0, 2^62).
func (it *Interp) clockRead() IntV {
	name := "now"
	if it.clockLogical {
		it.clockN++
		v := mkInt(uint64(1_000_000_000+1000*int64(it.clockN)), 64, true)
		it.clockReads = append(it.clockReads, v)
		return v
	}
	if it.Cfg.Concrete != nil {
		v := it.nondet(name, 64, true)
		return v
	}
	t := it.freshVar(name, 64)
	if it.clock == nil {
		it.addPC(smt.Cmp("bvsge", t, smt.Const(0, 64)))
	} else {
		it.addPC(smt.Cmp("bvsge", t, it.clock))
	}
	it.addPC(smt.Cmp("bvslt", t, smt.Const(1<<62, 64)))
	it.clock = t
	it.clockReads = append(it.clockReads, IntV{T: t, W: 64, S: true})
	return IntV{T: t, W: 64, S: true}
}

func tm(v Value) TimeV {
	t, ok := v.(TimeV)
	if !ok {
		panic(unsupported("expected time.Time, got %T", v))
	}
	return t
}

func i64(v Value) IntV {
	iv, ok := v.(IntV)
	if !ok {
		panic(unsupported("expected integer, got %T", v))
	}
	return iv
}

func bvOp(op string, a, b IntV) IntV { return intFromTerm(smt.Bin(op, a.Term(), b.Term()), true) }

// ---------- context ----------

type CtxObj struct {
	parent      *CtxObj
	children    []*CtxObj
	done        *Chan
	err         Value // Iface
	key, val    Value
	hasKV       bool
	cancelable  bool
	noCancel    bool
	hasDeadline bool
	deadline    TimeV
	id          int
}

func ctxOf(v Value) *CtxObj {
	switch x := v.(type) {
	case Iface:
		if x.T == nil {
			return nil
		}
		return ctxOf(x.V)
	case *Native:
		if x == nil {
			return nil
		}
		c, _ := x.Obj.(*CtxObj)
		return c
	}
	return nil
}

func (it *Interp) mkCtx(c *CtxObj) Value {
	it.ctxCtr++
	c.id = it.ctxCtr
	if c.parent != nil {
		c.parent.children = append(c.parent.children, c)
	}
	t := types.NewPointer(it.namedType("context", "cancelCtx"))
	return Iface{T: t, V: &Native{Kind: "ctx", Obj: c}}
}

func (it *Interp) ctxErr(which string) Value {
	key := "ctxerr:" + which
	if v, ok := it.side[key]; ok {
		return v.(Iface)
	}
	msg := "context canceled"
	if which == "DeadlineExceeded" {
		msg = "context deadline exceeded"
	}
	e := it.newErrorString(msg)
	it.side[key] = e
	return e
}

// canceler returns the nearest context (self or ancestor) whose cancellation this context observes.
func (c *CtxObj) canceler() *CtxObj {
	for x := c; x != nil; x = x.parent {
		if x.cancelable {
			return x
		}
		if x.noCancel {
			return nil
		}
	}
	return nil
}

func (it *Interp) ctxDone(c *CtxObj) *Chan {
	k := c.canceler()
	if k == nil {
		return nil
	}
	if k.done == nil {
		k.done = &Chan{cap: mkInt(0, 64, true), elem: types.NewStruct(nil, nil), id: it.nextChanID(), name: "ctx.Done"}
		if k.err != nil {
			k.done.closed = true
		}
	}
	return k.done
}

func (it *Interp) ctxErrOf(c *CtxObj) Value {
	k := c.canceler()
	if k == nil || k.err == nil {
		return Iface{}
	}
	return k.err
}

func (it *Interp) cancelCtx(c *CtxObj, err Value) {
	if c.cancelable {
		if c.err != nil {
			return
		}
		c.err = err
		if c.done != nil && !c.done.closed {
			c.done.closed = true
		}
	}
	for _, ch := range c.children {
		if ch.noCancel {
			continue
		}
		it.cancelCtx(ch, err)
	}
}

// ---------- sync side tables ----------

type mutexState struct {
	locked  bool
	readers int
}
type wgState struct{ n int64 }
type onceState struct{ done bool }

func sideOf[T any](it *Interp, key Value, mk func() *T) *T {
	k := key.(*Value)
	if k == nil {
		panic(unsupported("nil receiver for sync primitive"))
	}
	if s, ok := it.side[k]; ok {
		return s.(*T)
	}
	s := mk()
	it.side[k] = s
	return s
}

// atomicField returns the address of field "v" of an atomic.IntN/UintN/Bool/Pointer struct.
func atomicField(p Value, cc *ssa.CallCommon, fr *Frame) *Value {
	ptr := p.(*Value)
	if ptr == nil {
		panic(unsupported("atomic op on nil"))
	}
	s := (*ptr).(StructV)
	// the value field is the last one in every sync/atomic type
	return &s[len(s)-1]
}

func init() {
	// ----- time -----
	reg("time.Now", pure(func(it *Interp, a []Value) Value { return TimeV{NS: it.clockRead()} }))
	reg("(time.Time).UTC", pure(func(it *Interp, a []Value) Value { return tm(a[0]) }))
	reg("(time.Time).Local", pure(func(it *Interp, a []Value) Value { return tm(a[0]) }))
	reg("(time.Time).Round", pure(func(it *Interp, a []Value) Value { return tm(a[0]) }))
	reg("(time.Time).IsZero", pure(func(it *Interp, a []Value) Value {
		return boolFromTerm(smt.Eq(tm(a[0]).NS.Term(), smt.Const(uint64(ZeroTimeNS), 64)))
	}))
	reg("(time.Time).Before", pure(func(it *Interp, a []Value) Value {
		return boolFromTerm(smt.Cmp("bvslt", tm(a[0]).NS.Term(), tm(a[1]).NS.Term()))
	}))
	reg("(time.Time).After", pure(func(it *Interp, a []Value) Value {
		return boolFromTerm(smt.Cmp("bvsgt", tm(a[0]).NS.Term(), tm(a[1]).NS.Term()))
	}))
	reg("(time.Time).Equal", pure(func(it *Interp, a []Value) Value {
		return boolFromTerm(smt.Eq(tm(a[0]).NS.Term(), tm(a[1]).NS.Term()))
	}))
	reg("(time.Time).Compare", pure(func(it *Interp, a []Value) Value {
		x, y := tm(a[0]).NS.Term(), tm(a[1]).NS.Term()
		r := smt.Ite(smt.Cmp("bvslt", x, y), smt.Const(^uint64(0), 64), smt.Ite(smt.Cmp("bvsgt", x, y), smt.Const(1, 64), smt.Const(0, 64)))
		return intFromTerm(r, true)
	}))
	reg("(time.Time).Add", pure(func(it *Interp, a []Value) Value { return TimeV{NS: bvOp("bvadd", tm(a[0]).NS, i64(a[1]))} }))
	reg("(time.Time).Sub", pure(func(it *Interp, a []Value) Value { return bvOp("bvsub", tm(a[0]).NS, tm(a[1]).NS) }))
	reg("(time.Time).UnixNano", pure(func(it *Interp, a []Value) Value { return tm(a[0]).NS }))
	reg("(time.Time).Format", pure(func(it *Interp, a []Value) Value { return it.render(a[0], nil) }))
	reg("(time.Time).String", pure(func(it *Interp, a []Value) Value { return it.render(a[0], nil) }))
	reg("time.Unix", pure(func(it *Interp, a []Value) Value {
		sec, ns := i64(a[0]), i64(a[1])
		if sec.T != nil {
			panic(unsupported("time.Unix with symbolic seconds (multiplication by 1e9 is outside the encoding)"))
		}
		return TimeV{NS: bvOp("bvadd", mkInt(uint64(sec.Int64()*1_000_000_000), 64, true), ns)}
	}))
	reg("time.Since", pure(func(it *Interp, a []Value) Value { return bvOp("bvsub", it.clockRead(), tm(a[0]).NS) }))
	reg("time.Until", pure(func(it *Interp, a []Value) Value { return bvOp("bvsub", tm(a[0]).NS, it.clockRead()) }))
	reg("(time.Duration).String", pure(func(it *Interp, a []Value) Value { return it.render(a[0], nil) }))
	reg("(time.Duration).Seconds", pure(func(it *Interp, a []Value) Value {
		d := i64(a[0])
		if d.T != nil {
			return FloatHavoc{}
		}
		return float64(d.Int64()) / 1e9
	}))
	reg("(time.Duration).Nanoseconds", pure(func(it *Interp, a []Value) Value { return a[0] }))
	reg("(time.Duration).Milliseconds", pure(func(it *Interp, a []Value) Value {
		d := i64(a[0])
		if d.T != nil {
			panic(unsupported("Duration.Milliseconds on symbolic duration"))
		}
		return mkInt(uint64(d.Int64()/1e6), 64, true)
	}))
	mkTimer := func(ticks int) hfn {
		return func(it *Interp, g *G, fr *Frame, a []Value, cc *ssa.CallCommon) (Value, status) {
			d := i64(a[0])
			if ticks != 1 {
				// NewTicker panics for d <= 0
				if it.branch(boolFromTerm(smt.Cmp("bvsle", d.Term(), smt.Const(0, 64)))) {
					it.fault("panic", "ticker-nonpositive", "non-positive interval for NewTicker", fr)
				}
			}
			n := ticks
			if n < 0 {
				n = it.Cfg.Ticks
			}
			c := &Chan{cap: mkInt(1, 64, true), elem: it.namedType("time", "Time"), id: it.nextChanID(), timer: true, ticks: n, name: "timer"}
			// time.Timer / time.Ticker: struct { C <-chan Time; ... }
			tn := "Timer"
			if ticks != 1 {
				tn = "Ticker"
			}
			st := zero(it.namedType("time", tn)).(StructV)
			st[0] = c
			p := new(Value)
			*p = st
			return p, stOK
		}
	}
	reg("time.NewTimer", mkTimer(1))
	reg("time.NewTicker", mkTimer(-1))
	reg("time.After", func(it *Interp, g *G, fr *Frame, a []Value, cc *ssa.CallCommon) (Value, status) {
		return &Chan{cap: mkInt(1, 64, true), elem: it.namedType("time", "Time"), id: it.nextChanID(), timer: true, ticks: 1, name: "time.After"}, stOK
	})
	timerChan := func(p Value) *Chan { return (*p.(*Value)).(StructV)[0].(*Chan) }
	reg("(*time.Timer).Stop", pure(func(it *Interp, a []Value) Value {
		c := timerChan(a[0])
		was := !c.stopped && c.ticks > 0
		c.stopped = true
		return BoolV{C: was}
	}))
	reg("(*time.Timer).Reset", pure(func(it *Interp, a []Value) Value {
		c := timerChan(a[0])
		was := !c.stopped && c.ticks > 0
		c.stopped = false
		c.ticks = 1
		return BoolV{C: was}
	}))
	reg("(*time.Ticker).Stop", pure(func(it *Interp, a []Value) Value { timerChan(a[0]).stopped = true; return nil }))
	reg("(*time.Ticker).Reset", func(it *Interp, g *G, fr *Frame, a []Value, cc *ssa.CallCommon) (Value, status) {
		d := i64(a[1])
		if it.branch(boolFromTerm(smt.Cmp("bvsle", d.Term(), smt.Const(0, 64)))) {
			it.fault("panic", "ticker-nonpositive", "non-positive interval for Ticker.Reset", fr)
		}
		timerChan(a[0]).stopped = false
		return nil, stOK
	})
	reg("time.Sleep", func(it *Interp, g *G, fr *Frame, a []Value, cc *ssa.CallCommon) (Value, status) {
		it.trace = append(it.trace, "y:sleep")
		return nil, stOK
	})
	switchClasses["time.Sleep"] = "yield"

	// ----- context (std) -----
	reg("context.Background", pure(func(it *Interp, a []Value) Value {
		if v, ok := it.side["ctx:bg"]; ok {
			return v.(Iface)
		}
		v := it.mkCtx(&CtxObj{})
		it.side["ctx:bg"] = v
		return v
	}))
	reg("context.TODO", intrinsics["context.Background"])
	withCancel := func(it *Interp, parent Value) (Value, *CtxObj) {
		p := ctxOf(parent)
		if p == nil {
			panic(pathEnd{Kind: "fault", Label: "nil-parent-context", Msg: "cannot create context from nil parent"})
		}
		c := &CtxObj{parent: p, cancelable: true}
		v := it.mkCtx(c)
		// already-cancelled parent
		if e := it.ctxErrOf(p); !isNilValue(e) {
			c.err = e
		}
		return v, c
	}
	reg("context.WithCancel", pure(func(it *Interp, a []Value) Value {
		v, c := withCancel(it, a[0])
		return Tuple{v, &Closure{Intr: "ctx.cancel", IntrA: []Value{&Native{Kind: "ctx", Obj: c}}}}
	}))
	reg("ctx.cancel", pure(func(it *Interp, a []Value) Value {
		it.cancelCtx(a[0].(*Native).Obj.(*CtxObj), it.ctxErr("Canceled"))
		return nil
	}))
	switchClasses["ctx.cancel"] = "chan"
	reg("context.WithTimeout", pure(func(it *Interp, a []Value) Value {
		v, c := withCancel(it, a[0])
		c.hasDeadline = true
		c.deadline = TimeV{NS: bvOp("bvadd", it.clockRead(), i64(a[1]))}
		return Tuple{v, &Closure{Intr: "ctx.cancel", IntrA: []Value{&Native{Kind: "ctx", Obj: c}}}}
	}))
	reg("context.WithDeadline", pure(func(it *Interp, a []Value) Value {
		v, c := withCancel(it, a[0])
		c.hasDeadline = true
		c.deadline = tm(a[1])
		return Tuple{v, &Closure{Intr: "ctx.cancel", IntrA: []Value{&Native{Kind: "ctx", Obj: c}}}}
	}))
	reg("context.WithoutCancel", pure(func(it *Interp, a []Value) Value {
		p := ctxOf(a[0])
		if p == nil {
			panic(pathEnd{Kind: "fault", Label: "nil-parent-context", Msg: "cannot create context from nil parent"})
		}
		return it.mkCtx(&CtxObj{parent: p, noCancel: true})
	}))
	reg("context.WithValue", pure(func(it *Interp, a []Value) Value {
		p := ctxOf(a[0])
		if p == nil {
			panic(pathEnd{Kind: "fault", Label: "nil-parent-context", Msg: "cannot create context from nil parent"})
		}
		return it.mkCtx(&CtxObj{parent: p, key: a[1], val: a[2], hasKV: true})
	}))
	reg("context.Cause", pure(func(it *Interp, a []Value) Value { return it.ctxErrOf(ctxOf(a[0])) }))
	reg("native:ctx.Done", pure(func(it *Interp, a []Value) Value { return it.ctxDone(a[0].(*Native).Obj.(*CtxObj)) }))
	reg("native:ctx.Err", pure(func(it *Interp, a []Value) Value { return it.ctxErrOf(a[0].(*Native).Obj.(*CtxObj)) }))
	reg("native:ctx.Value", pure(func(it *Interp, a []Value) Value {
		for c := a[0].(*Native).Obj.(*CtxObj); c != nil; c = c.parent {
			if c.hasKV {
				if eq := it.equal(c.key, a[1]); eq.IsTrue() {
					return c.val
				}
			}
		}
		return Iface{}
	}))
	reg("native:ctx.Deadline", pure(func(it *Interp, a []Value) Value {
		for c := a[0].(*Native).Obj.(*CtxObj); c != nil; c = c.parent {
			if c.hasDeadline {
				return Tuple{c.deadline, BoolV{C: true}}
			}
			if c.noCancel {
				break
			}
		}
		return Tuple{zero(it.namedType("time", "Time")), BoolV{C: false}}
	}))

	// ----- gostdlib context attachments -----
	reg("github.com/gostdlib/base/context.Attach", pure(func(it *Interp, a []Value) Value { return a[0] }))
	reg("github.com/gostdlib/base/context.Log", pure(func(it *Interp, a []Value) Value { return (*Value)(nil) }))
	reg("github.com/gostdlib/base/context.Pool", pure(func(it *Interp, a []Value) Value {
		if v, ok := it.side["pool"]; ok {
			return v.(*Value)
		}
		p := new(Value)
		*p = zero(it.namedType("github.com/gostdlib/base/concurrency/worker", "Pool"))
		it.side["pool"] = p
		return p
	}))
	reg("github.com/gostdlib/base/context.EOptions", pure(func(it *Interp, a []Value) Value { return SliceV{Nil: true} }))

	// ----- sync -----
	newMu := func() *mutexState { return &mutexState{} }
	lock := func(it *Interp, g *G, fr *Frame, a []Value, cc *ssa.CallCommon) (Value, status) {
		m := sideOf(it, a[0], newMu)
		if m.locked || m.readers > 0 {
			it.block(g, "Mutex.Lock", func() bool { return !m.locked && m.readers == 0 })
			return nil, stBlock
		}
		m.locked = true
		return nil, stOK
	}
	unlock := func(it *Interp, g *G, fr *Frame, a []Value, cc *ssa.CallCommon) (Value, status) {
		m := sideOf(it, a[0], newMu)
		if !m.locked {
			it.fault("panic", "unlock-unlocked", "sync: unlock of unlocked mutex", fr)
		}
		m.locked = false
		return nil, stOK
	}
	reg("(*sync.Mutex).Lock", lock)
	reg("(*sync.Mutex).Unlock", unlock)
	reg("(*sync.RWMutex).Lock", lock)
	reg("(*sync.RWMutex).Unlock", unlock)
	reg("(*sync.Mutex).TryLock", func(it *Interp, g *G, fr *Frame, a []Value, cc *ssa.CallCommon) (Value, status) {
		m := sideOf(it, a[0], newMu)
		if m.locked || m.readers > 0 {
			return BoolV{C: false}, stOK
		}
		m.locked = true
		return BoolV{C: true}, stOK
	})
	reg("(*sync.RWMutex).RLock", func(it *Interp, g *G, fr *Frame, a []Value, cc *ssa.CallCommon) (Value, status) {
		m := sideOf(it, a[0], newMu)
		if m.locked {
			it.block(g, "RWMutex.RLock", func() bool { return !m.locked })
			return nil, stBlock
		}
		m.readers++
		return nil, stOK
	})
	reg("(*sync.RWMutex).RUnlock", func(it *Interp, g *G, fr *Frame, a []Value, cc *ssa.CallCommon) (Value, status) {
		m := sideOf(it, a[0], newMu)
		if m.readers <= 0 {
			it.fault("panic", "runlock-unlocked", "sync: RUnlock of unlocked RWMutex", fr)
		}
		m.readers--
		return nil, stOK
	})
	for _, n := range []string{"(*sync.Mutex).Lock", "(*sync.Mutex).Unlock", "(*sync.RWMutex).Lock", "(*sync.RWMutex).Unlock", "(*sync.RWMutex).RLock", "(*sync.RWMutex).RUnlock"} {
		switchClasses[n] = "lock"
	}
	newWG := func() *wgState { return &wgState{} }
	reg("(*sync.WaitGroup).Add", func(it *Interp, g *G, fr *Frame, a []Value, cc *ssa.CallCommon) (Value, status) {
		w := sideOf(it, a[0], newWG)
		w.n += cint(a[1])
		if w.n < 0 {
			it.fault("panic", "negative-waitgroup", "sync: negative WaitGroup counter", fr)
		}
		return nil, stOK
	})
	reg("(*sync.WaitGroup).Done", func(it *Interp, g *G, fr *Frame, a []Value, cc *ssa.CallCommon) (Value, status) {
		w := sideOf(it, a[0], newWG)
		w.n--
		if w.n < 0 {
			it.fault("panic", "negative-waitgroup", "sync: negative WaitGroup counter", fr)
		}
		return nil, stOK
	})
	reg("(*sync.WaitGroup).Wait", func(it *Interp, g *G, fr *Frame, a []Value, cc *ssa.CallCommon) (Value, status) {
		w := sideOf(it, a[0], newWG)
		if w.n > 0 {
			it.block(g, "WaitGroup.Wait", func() bool { return w.n == 0 })
			return nil, stBlock
		}
		return nil, stOK
	})
	switchClasses["(*sync.WaitGroup).Done"] = "lock"
	reg("(*sync.Once).Do", func(it *Interp, g *G, fr *Frame, a []Value, cc *ssa.CallCommon) (Value, status) {
		o := sideOf(it, a[0], func() *onceState { return &onceState{} })
		if o.done {
			return nil, stOK
		}
		o.done = true
		if fr == nil {
			it.callSync(a[1], nil)
			return nil, stOK
		}
		return nil, it.callValue(g, fr, a[1], nil, cc, nil)
	})

	// ----- sync/atomic typed values -----
	for _, tn := range []string{"Int64", "Int32", "Uint64", "Uint32"} {
		tn := tn
		pre := "(*sync/atomic." + tn + ")."
		reg(pre+"Load", func(it *Interp, g *G, fr *Frame, a []Value, cc *ssa.CallCommon) (Value, status) {
			return *atomicField(a[0], cc, fr), stOK
		})
		reg(pre+"Store", func(it *Interp, g *G, fr *Frame, a []Value, cc *ssa.CallCommon) (Value, status) {
			*atomicField(a[0], cc, fr) = a[1]
			return nil, stOK
		})
		reg(pre+"Add", func(it *Interp, g *G, fr *Frame, a []Value, cc *ssa.CallCommon) (Value, status) {
			f := atomicField(a[0], cc, fr)
			old := (*f).(IntV)
			d := a[1].(IntV)
			n := intFromTerm(smt.Bin("bvadd", old.Term(), d.Term()), old.S)
			*f = n
			return n, stOK
		})
		reg(pre+"Swap", func(it *Interp, g *G, fr *Frame, a []Value, cc *ssa.CallCommon) (Value, status) {
			f := atomicField(a[0], cc, fr)
			old := *f
			*f = a[1]
			return old, stOK
		})
		reg(pre+"CompareAndSwap", func(it *Interp, g *G, fr *Frame, a []Value, cc *ssa.CallCommon) (Value, status) {
			f := atomicField(a[0], cc, fr)
			if it.branch(boolFromTerm(it.equal(*f, a[1]))) {
				*f = a[2]
				return BoolV{C: true}, stOK
			}
			return BoolV{C: false}, stOK
		})
		for _, m := range []string{"Load", "Store", "Add", "Swap", "CompareAndSwap"} {
			switchClasses[pre+m] = "atomic"
		}
	}
	reg("(*sync/atomic.Bool).Load", func(it *Interp, g *G, fr *Frame, a []Value, cc *ssa.CallCommon) (Value, status) {
		v := (*atomicField(a[0], cc, fr)).(IntV)
		return boolFromTerm(smt.Not(smt.Eq(v.Term(), smt.Const(0, int(v.W))))), stOK
	})
	reg("(*sync/atomic.Bool).Store", func(it *Interp, g *G, fr *Frame, a []Value, cc *ssa.CallCommon) (Value, status) {
		f := atomicField(a[0], cc, fr)
		old := (*f).(IntV)
		b := a[1].(BoolV)
		*f = intFromTerm(smt.Ite(b.Term(), smt.Const(1, int(old.W)), smt.Const(0, int(old.W))), false)
		return nil, stOK
	})
	switchClasses["(*sync/atomic.Bool).Load"] = "atomic"
	switchClasses["(*sync/atomic.Bool).Store"] = "atomic"

	// ----- gostdlib ShardedMap: one atomic step per call -----
	smOf := func(it *Interp, recv Value) *MapV {
		k := recv.(*Value)
		if m, ok := it.side[k]; ok {
			return m.(*MapV)
		}
		m := newMap(nil, nil)
		it.side[k] = m
		return m
	}
	smPre := "(*github.com/gostdlib/base/concurrency/sync.ShardedMap[K, V])."
	reg(smPre+"Get", func(it *Interp, g *G, fr *Frame, a []Value, cc *ssa.CallCommon) (Value, status) {
		m := smOf(it, a[0])
		v, found, err := m.get(a[1])
		if err != nil {
			panic(unsupported("%v", err))
		}
		if !found {
			v = zero(resultType(cc, fr, 0))
		}
		return Tuple{v, BoolV{C: found}}, stOK
	})
	reg(smPre+"Set", func(it *Interp, g *G, fr *Frame, a []Value, cc *ssa.CallCommon) (Value, status) {
		m := smOf(it, a[0])
		old, found, _ := m.get(a[1])
		if !found {
			old = zero(resultType(cc, fr, 0))
		}
		if err := m.set(a[1], a[2]); err != nil {
			panic(unsupported("%v", err))
		}
		return Tuple{old, BoolV{C: found}}, stOK
	})
	reg(smPre+"Del", func(it *Interp, g *G, fr *Frame, a []Value, cc *ssa.CallCommon) (Value, status) {
		m := smOf(it, a[0])
		old, found, _ := m.get(a[1])
		if !found {
			old = zero(resultType(cc, fr, 0))
		}
		m.del(a[1])
		return Tuple{old, BoolV{C: found}}, stOK
	})
	reg(smPre+"Len", func(it *Interp, g *G, fr *Frame, a []Value, cc *ssa.CallCommon) (Value, status) {
		return goInt(len(smOf(it, a[0]).M)), stOK
	})
	for _, m := range []string{"Get", "Set", "Del"} {
		switchClasses[smPre+m] = "lock"
	}

	// ----- uuid -----
	reg("github.com/google/uuid.NewV7", pure(func(it *Interp, a []Value) Value {
		return Tuple{it.freshUUID(), Iface{}}
	}))
	reg("github.com/google/uuid.New", pure(func(it *Interp, a []Value) Value { return it.freshUUID() }))
	reg("(github.com/google/uuid.UUID).String", pure(func(it *Interp, a []Value) Value {
		arr := a[0].(ArrayV)
		s := ""
		for i, b := range arr {
			bv := b.(IntV)
			if bv.T != nil {
				return symMarker
			}
			if i == 4 || i == 6 || i == 8 || i == 10 {
				s += "-"
			}
			s += fmt.Sprintf("%02x", bv.C)
		}
		return s
	}))
}

// resultType returns the i-th component of the call's result type.
func resultType(cc *ssa.CallCommon, fr *Frame, i int) types.Type {
	if cc == nil {
		panic(unsupported("result type needed in a synchronous call"))
	}
	res := cc.Signature().Results()
	return res.At(i).Type()
}

// freshUUID returns a new version-7 id, pairwise distinct from all others on this path.
func (it *Interp) freshUUID() Value {
	it.uuidCtr++
	arr := make(ArrayV, 16)
	for i := range arr {
		arr[i] = mkInt(0, 8, false)
	}
	n := it.uuidCtr
	arr[0] = mkInt(0x01, 8, false)
	arr[6] = mkInt(0x70, 8, false) // version 7
	arr[8] = mkInt(0x80, 8, false) // RFC 4122 variant
	arr[14] = mkInt(uint64(n>>8), 8, false)
	arr[15] = mkInt(uint64(n), 8, false)
	return arr
}
