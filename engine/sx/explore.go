package sx

import (
	"fmt"
	"math/rand"
	"os"
	"sort"
	"strings"
	"sync"
	"time"

	"gosx/smt"

	"golang.org/x/tools/go/ssa"
)

type Report struct {
	Harness                    string
	Paths                      int
	Done                       int
	Dropped                    int
	Faults                     int
	Truncated                  int
	Cut                        int
	CutMsgs                    map[string]int
	Asserts, AssertQueries     int
	CrossChecked, CrossUnknown int
	Unsupported                int
	UnsupportedMsgs            map[string]int
	TruncatedMsgs              map[string]int
	Violations                 []*Violation // deduplicated
	ViolationCount             int
	Reached                    map[string]int
	Fns                        map[string]bool
	Stubs                      map[string]bool
	Bounds                     map[string]int
	Decisions                  int
	DecisionKinds              map[string]int
	Queries                    int
	NSat, NUnsat, NUnknown     int
	SolverErrors               []string
	SolverS                    float64
	WallS                      float64
	Steps                      int64
	MaxPC                      int
	MaxVars                    int
	Samples                    []map[string]any
	UnknownBranches            int
	FloatBranches              int
	Aborted                    string
}

type Explorer struct {
	P             *Program
	Cfg           *Config
	Entry         *ssa.Function
	Workers       int
	SolverKind    string
	TimeoutMS     int
	MaxPaths      int
	Deadline      time.Time
	MaxViolations int
	Seed          int
	CrossSolver   string // e.g. "cvc5": second opinion on every assertion batch
	CrossEvery    int    // cross-check one assertion batch in CrossEvery (0/1 = all), chosen by a path-independent counter
}

func (e *Explorer) Run() *Report {
	rep := &Report{Harness: e.Cfg.Harness, UnsupportedMsgs: map[string]int{}, TruncatedMsgs: map[string]int{}, CutMsgs: map[string]int{},
		Reached: map[string]int{}, Fns: map[string]bool{}, Stubs: map[string]bool{}, Bounds: map[string]int{}, DecisionKinds: map[string]int{}}
	start := time.Now()
	var mu sync.Mutex
	cond := sync.NewCond(&mu)
	work := [][]int64{nil}
	busy := 0
	stop := false
	seenViol := map[string]*Violation{}
	const sampleK = 3
	doneSeen := 0
	rng := rand.New(rand.NewSource(int64(e.Seed) + 1))
	if e.MaxViolations == 0 {
		e.MaxViolations = 6
	}

	var wg sync.WaitGroup
	for w := 0; w < e.Workers; w++ {
		wg.Add(1)
		go func(w int) {
			defer wg.Done()
			solver, err := smt.NewSolver(e.SolverKind, e.TimeoutMS)
			if err != nil {
				mu.Lock()
				rep.Aborted = "cannot start solver: " + err.Error()
				stop = true
				cond.Broadcast()
				mu.Unlock()
				return
			}
			defer func() {
				mu.Lock()
				rep.Queries += solver.Queries
				rep.NSat += solver.NSat
				rep.NUnsat += solver.NUnsat
				rep.NUnknown += solver.NUnknown
				rep.SolverS += solver.Time.Seconds()
				for _, e := range solver.Errors {
					if len(rep.SolverErrors) < 5 {
						rep.SolverErrors = append(rep.SolverErrors, e)
					}
				}
				mu.Unlock()
				solver.Close()
			}()
			crossCtr := 0 // per worker, carried across paths
			var solver2 *smt.Solver
			if e.CrossSolver != "" {
				if s2, err := smt.NewSolver(e.CrossSolver, e.TimeoutMS); err == nil {
					solver2 = s2
					defer s2.Close()
				}
			}
			for {
				mu.Lock()
				for len(work) == 0 && busy > 0 && !stop {
					cond.Wait()
				}
				if stop || (len(work) == 0 && busy == 0) {
					cond.Broadcast()
					mu.Unlock()
					return
				}
				prefix := work[len(work)-1]
				work = work[:len(work)-1]
				busy++
				mu.Unlock()

				cfg := *e.Cfg
				it := NewInterp(e.P, &cfg, solver, prefix)
				it.Solver2 = solver2
				it.CrossEvery = e.CrossEvery
				it.crossCtr = crossCtr
				res := it.Run(e.Entry)
				crossCtr = it.crossCtr
				var sample map[string]any
				mu.Lock()
				needSample := false
				slot := -1
				if res.End.Kind == "done" && len(res.Violations) == 0 {
					doneSeen++
					if len(rep.Samples) < sampleK {
						needSample = true
					} else if rng.Intn(doneSeen) < sampleK {
						needSample = true
						slot = rng.Intn(sampleK)
					}
				}
				mu.Unlock()
				if needSample {
					sample = it.samplePath(res)
				}

				mu.Lock()
				if os.Getenv("GOSX_TRACE") != "" {
					fmt.Printf("PATH %v end=%s/%s %s\n   facts=%v\n   trace=%v\n", res.Taken, res.End.Kind, res.End.Label, res.End.Msg, res.Facts, res.Trace)
				}
				busy--
				rep.Paths++
				rep.Steps += int64(res.Steps)
				rep.UnknownBranches += res.UnknownBr
				rep.Asserts += res.Asserts
				rep.AssertQueries += res.AssertQ
				rep.CrossChecked += res.Cross
				rep.CrossUnknown += res.CrossUnknown
				rep.FloatBranches += it.floatBranches
				if res.PCSize > rep.MaxPC {
					rep.MaxPC = res.PCSize
				}
				if res.Vars > rep.MaxVars {
					rep.MaxVars = res.Vars
				}
				newDec := len(res.Taken) - len(prefix)
				if newDec > 0 {
					rep.Decisions += newDec
					for _, k := range res.Kinds[len(prefix):] {
						rep.DecisionKinds[k]++
					}
				}
				switch res.End.Kind {
				case "done":
					rep.Done++
				case "drop":
					rep.Dropped++
				case "fault":
					rep.Faults++
				case "cut":
					rep.Cut++
					rep.CutMsgs[res.End.Label]++
				case "truncated":
					rep.Truncated++
					rep.TruncatedMsgs[res.End.Label+": "+res.End.Msg]++
				case "unsupported":
					rep.Unsupported++
					m := res.End.Msg
					if len(m) > 600 {
						m = m[:600]
					}
					rep.UnsupportedMsgs[res.End.Label+": "+m]++
				}
				if res.End.Kind == "done" || res.End.Kind == "fault" {
					for k := range res.Reached {
						rep.Reached[k]++
					}
				}
				for k := range res.Fns {
					rep.Fns[k] = true
				}
				for k := range res.Stubs {
					rep.Stubs[k] = true
				}
				for k, v := range res.Bounds {
					rep.Bounds[k] = v
				}
				for _, v := range res.Violations {
					rep.ViolationCount++
					key := v.Kind + "|" + v.Label + "|" + v.Facts["site"] + "|" + factKey(v.Facts)
					if first := seenViol[key]; first == nil {
						seenViol[key] = v
						rep.Violations = append(rep.Violations, v)
					} else if distinctTrace(first, v) {
						// other witnesses of the same violation (different schedules): the driver replays them in turn,
						// fewest uncontrollable races first
						first.Alternates = append(first.Alternates, v)
						sort.SliceStable(first.Alternates, func(i, j int) bool { return first.Alternates[i].Races < first.Alternates[j].Races })
						if len(first.Alternates) > maxAlternates {
							first.Alternates = first.Alternates[:maxAlternates]
						}
					}
				}
				if sample != nil {
					if len(rep.Samples) < sampleK {
						rep.Samples = append(rep.Samples, sample)
					} else if slot >= 0 {
						rep.Samples[slot] = sample
					}
				}
				work = append(work, res.NewWork...)
				if e.MaxPaths > 0 && rep.Paths >= e.MaxPaths {
					rep.Aborted = fmt.Sprintf("path limit %d reached", e.MaxPaths)
					stop = true
				}
				if !e.Deadline.IsZero() && time.Now().After(e.Deadline) {
					rep.Aborted = "time limit reached"
					stop = true
				}
				if len(rep.Violations) >= e.MaxViolations*4 {
					rep.Aborted = "too many distinct violations"
					stop = true
				}
				cond.Broadcast()
				mu.Unlock()
			}
		}(w)
	}
	wg.Wait()
	rep.WallS = time.Since(start).Seconds()
	if rep.Aborted != "" && len(work) > 0 {
		rep.Aborted += fmt.Sprintf(" (%d prefixes unexplored)", len(work))
	}
	sort.Slice(rep.Violations, func(i, j int) bool {
		a, b := rep.Violations[i], rep.Violations[j]
		if a.Label != b.Label {
			return a.Label < b.Label
		}
		return len(a.Decisions) < len(b.Decisions)
	})
	return rep
}

func factKey(f map[string]string) string {
	var ks []string
	for k := range f {
		if k == "site" || strings.HasPrefix(k, "i:") {
			continue
		}
		ks = append(ks, k)
	}
	sort.Strings(ks)
	var sb strings.Builder
	for _, k := range ks {
		sb.WriteString(k + "=" + f[k] + ";")
	}
	return sb.String()
}

// samplePath writes out one explored path: its decisions and one satisfying assignment of its path condition.
func (it *Interp) samplePath(res *PathResult) map[string]any {
	m := map[string]any{"decisions": fmt.Sprint(res.Taken), "path_condition_conjuncts": res.PCSize}
	if len(it.vars) > 0 {
		r, model := it.modelOf(nil)
		if r == smt.Sat {
			mm := map[string]int64{}
			for _, v := range it.vars {
				val := model[v.Name]
				if v.Sort > 0 && v.Sort < 64 {
					sh := uint(64 - v.Sort)
					mm[v.Name] = int64(val<<sh) >> sh
				} else {
					mm[v.Name] = int64(val)
				}
			}
			m["one_model_of_path_condition"] = mm
		}
	}
	if len(res.Facts) > 0 {
		m["facts"] = res.Facts
	}
	ch := map[string]int64{}
	for k, v := range it.choices {
		ch[k] = v
	}
	m["choices"] = ch
	m["trace_full"] = append([]string{}, res.Trace...)
	tr := res.Trace
	if len(tr) > 40 {
		tr = tr[:40]
	}
	if len(tr) > 0 {
		m["events"] = tr
	}
	var reached []string
	for k := range res.Reached {
		reached = append(reached, k)
	}
	sort.Strings(reached)
	m["witnesses_reached"] = reached
	return m
}

// maxAlternates bounds the extra witnesses kept per distinct violation.
const maxAlternates = 7

func distinctTrace(first, v *Violation) bool {
	same := func(a, b []string) bool {
		if len(a) != len(b) {
			return false
		}
		for i := range a {
			if a[i] != b[i] {
				return false
			}
		}
		return true
	}
	if same(first.Trace, v.Trace) {
		return false
	}
	for _, o := range first.Alternates {
		if same(o.Trace, v.Trace) {
			return false
		}
	}
	return true
}
