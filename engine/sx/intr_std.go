package sx

import (
	"fmt"
	"go/types"
	"strconv"
	"strings"
	"unicode"

	"gosx/smt"

	"golang.org/x/tools/go/ssa"
)

type hfn = func(it *Interp, g *G, fr *Frame, a []Value, cc *ssa.CallCommon) (Value, status)

func pure(f func(it *Interp, a []Value) Value) hfn {
	return func(it *Interp, g *G, fr *Frame, a []Value, cc *ssa.CallCommon) (Value, status) {
		return f(it, a), stOK
	}
}

func noop(it *Interp, g *G, fr *Frame, a []Value, cc *ssa.CallCommon) (Value, status) {
	return nil, stOK
}

func concStr(v Value) string {
	s, ok := v.(string)
	if !ok {
		panic(unsupported("expected string, got %T", v))
	}
	return s
}

func strSlice(v Value) []string {
	s := v.(SliceV)
	out := make([]string, len(s.S))
	for i, e := range s.S {
		out[i] = concStr(e)
	}
	return out
}

func mkStrSlice(ss []string) Value {
	if ss == nil {
		return SliceV{Nil: true}
	}
	out := make([]Value, len(ss))
	for i, s := range ss {
		out[i] = s
	}
	return SliceV{S: out}
}

func cint(v Value) int64 {
	iv := v.(IntV)
	if iv.T != nil {
		panic(unsupported("symbolic integer passed to a native library function"))
	}
	return iv.Int64()
}

func goInt(i int) IntV { return mkInt(uint64(int64(i)), 64, true) }

// ---------- error values built by intrinsics ----------

func (it *Interp) namedType(pkg, name string) types.Type {
	p := it.P.Pkgs[pkg]
	if p == nil {
		panic(unsupported("package %s not loaded", pkg))
	}
	o := p.Pkg.Scope().Lookup(name)
	if o == nil {
		panic(unsupported("type %s.%s not found", pkg, name))
	}
	return o.Type()
}

func (it *Interp) newErrorString(msg string) Iface {
	t := it.namedType("errors", "errorString")
	p := new(Value)
	*p = StructV{msg}
	return Iface{T: types.NewPointer(t), V: p}
}

func (it *Interp) newWrapError(msg string, wraps []Value) Iface {
	switch len(wraps) {
	case 0:
		return it.newErrorString(msg)
	case 1:
		t := it.namedType("fmt", "wrapError")
		p := new(Value)
		*p = StructV{msg, wraps[0]}
		return Iface{T: types.NewPointer(t), V: p}
	}
	t := it.namedType("fmt", "wrapErrors")
	p := new(Value)
	*p = StructV{msg, SliceV{S: append([]Value{}, wraps...)}}
	return Iface{T: types.NewPointer(t), V: p}
}

// format implements the fmt verbs needed for messages; returns the text and the %w operands.
func (it *Interp) format(f string, args []Value) (string, []Value) {
	var sb strings.Builder
	var wraps []Value
	ai := 0
	for i := 0; i < len(f); i++ {
		c := f[i]
		if c != '%' {
			sb.WriteByte(c)
			continue
		}
		i++
		if i >= len(f) {
			sb.WriteByte('%')
			break
		}
		// flags, width, precision
		for i < len(f) && strings.ContainsRune("+-# 0123456789.*[]", rune(f[i])) {
			i++
		}
		if i >= len(f) {
			break
		}
		verb := f[i]
		if verb == '%' {
			sb.WriteByte('%')
			continue
		}
		if ai >= len(args) {
			sb.WriteString("%!" + string(verb) + "(MISSING)")
			continue
		}
		arg := args[ai]
		ai++
		ifc, _ := arg.(Iface)
		switch verb {
		case 'T':
			if ifc.T == nil {
				sb.WriteString("<nil>")
			} else {
				sb.WriteString(typeString(ifc.T))
			}
		case 'w':
			wraps = append(wraps, arg)
			sb.WriteString(it.render(arg, nil))
		case 'q':
			sb.WriteString(strconv.Quote(it.render(arg, nil)))
		case 'x', 'X':
			if iv, ok := ifc.V.(IntV); ok && iv.T == nil {
				sb.WriteString(strconv.FormatUint(iv.C, 16))
			} else {
				sb.WriteString(it.render(arg, nil))
			}
		default:
			sb.WriteString(it.render(arg, nil))
		}
	}
	return sb.String(), wraps
}

func variadic(v Value) []Value {
	s, _ := v.(SliceV)
	return s.S
}

// ---------- errors.Is / As ----------

func (it *Interp) methodOf(t types.Type, name string) *ssa.Function {
	if t == nil {
		return nil
	}
	ms := it.P.Prog.MethodSets.MethodSet(t)
	sel := ms.Lookup(nil, name)
	if sel == nil {
		return nil
	}
	return it.P.Prog.MethodValue(sel)
}

func (it *Interp) callMethod(recv Iface, name string, args ...Value) (Value, bool) {
	if recv.T == nil {
		return nil, false
	}
	if nat, ok := recv.V.(*Native); ok && nat != nil {
		h, ok := intrinsics["native:"+nat.Kind+"."+name]
		if !ok {
			return nil, false
		}
		res, st := h(it, it.cur, nil, append([]Value{nat}, args...), nil)
		if st != stOK {
			panic(unsupported("native method %s blocked in synchronous call", name))
		}
		return res, true
	}
	m := it.methodOf(recv.T, name)
	if m == nil {
		return nil, false
	}
	return it.callSync(&Closure{Fn: m}, append([]Value{recv.V}, args...)), true
}

func (it *Interp) errorsIs(err, target Iface, depth int) bool {
	if depth > 32 {
		panic(unsupported("errors.Is chain too deep"))
	}
	for {
		if err.T == nil || target.T == nil {
			return err.T == nil && target.T == nil
		}
		if types.Comparable(target.T) {
			if it.branch(boolFromTerm(it.equal(err, target))) {
				return true
			}
		}
		if m := it.methodOf(err.T, "Is"); m != nil && m.Signature.Params().Len() == 1 {
			if r, ok := it.callSync(&Closure{Fn: m}, []Value{err.V, target}).(BoolV); ok && it.branch(r) {
				return true
			}
		}
		if m := it.methodOf(err.T, "Unwrap"); m != nil {
			res := it.callSync(&Closure{Fn: m}, []Value{err.V})
			switch r := res.(type) {
			case Iface:
				if r.T == nil {
					return false
				}
				err = r
				continue
			case SliceV:
				for _, e := range r.S {
					if it.errorsIs(e.(Iface), target, depth+1) {
						return true
					}
				}
				return false
			}
		}
		return false
	}
}

func (it *Interp) errorsAs(err Iface, target Iface, depth int) bool {
	if target.T == nil {
		panic(unsupported("errors.As: nil target"))
	}
	pt, ok := target.T.Underlying().(*types.Pointer)
	if !ok {
		panic(unsupported("errors.As: target is not a pointer"))
	}
	et := pt.Elem()
	dst := target.V.(*Value)
	for {
		if err.T == nil {
			return false
		}
		if ei, isI := et.Underlying().(*types.Interface); isI {
			if it.implements(err.T, ei, et) {
				storeInto(dst, err)
				return true
			}
		} else if types.Identical(err.T, et) {
			storeInto(dst, copyVal(err.V))
			return true
		}
		if m := it.methodOf(err.T, "As"); m != nil && m.Signature.Params().Len() == 1 {
			if r, ok := it.callSync(&Closure{Fn: m}, []Value{err.V, target}).(BoolV); ok && it.branch(r) {
				return true
			}
		}
		if m := it.methodOf(err.T, "Unwrap"); m != nil {
			res := it.callSync(&Closure{Fn: m}, []Value{err.V})
			switch r := res.(type) {
			case Iface:
				if r.T == nil {
					return false
				}
				err = r
				continue
			case SliceV:
				for _, e := range r.S {
					if it.errorsAs(e.(Iface), target, depth+1) {
						return true
					}
				}
				return false
			}
		}
		return false
	}
}

// ---------- strings.Builder side state ----------

type sbState struct{ sb strings.Builder }

func (it *Interp) sbOf(p Value) *sbState {
	k := p.(*Value)
	if s, ok := it.side[k]; ok {
		return s.(*sbState)
	}
	s := &sbState{}
	it.side[k] = s
	return s
}

// rtypeOf returns the canonical reflect.Type object for t.
func (it *Interp) rtypeOf(t types.Type) Value {
	if t == nil {
		return Iface{}
	}
	key := "rtype:" + types.TypeString(t, nil)
	n, ok := it.side[key]
	if !ok {
		n = &Native{Kind: "rtype", Obj: t}
		it.side[key] = n
	}
	return Iface{T: types.NewPointer(it.namedType("reflect", "rtype")), V: n.(*Native)}
}

func init() {
	// ----- fmt -----
	reg("fmt.Sprintf", pure(func(it *Interp, a []Value) Value {
		s, _ := it.format(concStr(a[0]), variadic(a[1]))
		return s
	}))
	reg("fmt.Errorf", pure(func(it *Interp, a []Value) Value {
		s, wraps := it.format(concStr(a[0]), variadic(a[1]))
		return it.newWrapError(s, wraps)
	}))
	reg("fmt.Sprint", pure(func(it *Interp, a []Value) Value {
		var parts []string
		for _, x := range variadic(a[0]) {
			parts = append(parts, it.render(x, nil))
		}
		return strings.Join(parts, " ")
	}))
	reg("fmt.Sprintln", pure(func(it *Interp, a []Value) Value {
		var parts []string
		for _, x := range variadic(a[0]) {
			parts = append(parts, it.render(x, nil))
		}
		return strings.Join(parts, " ") + "\n"
	}))
	reg("fmt.Println", noop)
	reg("fmt.Printf", noop)
	reg("(*fmt.wrapError).Error", pure(func(it *Interp, a []Value) Value { return (*a[0].(*Value)).(StructV)[0] }))
	reg("(*fmt.wrapError).Unwrap", pure(func(it *Interp, a []Value) Value { return (*a[0].(*Value)).(StructV)[1] }))
	reg("(*fmt.wrapErrors).Error", pure(func(it *Interp, a []Value) Value { return (*a[0].(*Value)).(StructV)[0] }))
	reg("(*fmt.wrapErrors).Unwrap", pure(func(it *Interp, a []Value) Value { return (*a[0].(*Value)).(StructV)[1] }))

	// ----- errors -----
	reg("errors.Is", pure(func(it *Interp, a []Value) Value {
		return BoolV{C: it.errorsIs(a[0].(Iface), a[1].(Iface), 0)}
	}))
	reg("errors.As", pure(func(it *Interp, a []Value) Value {
		return BoolV{C: it.errorsAs(a[0].(Iface), a[1].(Iface), 0)}
	}))

	// ----- strings -----
	reg("strings.TrimSpace", pure(func(it *Interp, a []Value) Value { return strings.TrimSpace(concStr(a[0])) }))
	reg("strings.ToLower", pure(func(it *Interp, a []Value) Value { return strings.ToLower(concStr(a[0])) }))
	reg("strings.ToUpper", pure(func(it *Interp, a []Value) Value { return strings.ToUpper(concStr(a[0])) }))
	reg("strings.HasPrefix", pure(func(it *Interp, a []Value) Value { return BoolV{C: strings.HasPrefix(concStr(a[0]), concStr(a[1]))} }))
	reg("strings.HasSuffix", pure(func(it *Interp, a []Value) Value { return BoolV{C: strings.HasSuffix(concStr(a[0]), concStr(a[1]))} }))
	reg("strings.Contains", pure(func(it *Interp, a []Value) Value { return BoolV{C: strings.Contains(concStr(a[0]), concStr(a[1]))} }))
	reg("strings.Index", pure(func(it *Interp, a []Value) Value { return goInt(strings.Index(concStr(a[0]), concStr(a[1]))) }))
	reg("strings.Count", pure(func(it *Interp, a []Value) Value { return goInt(strings.Count(concStr(a[0]), concStr(a[1]))) }))
	reg("strings.TrimSuffix", pure(func(it *Interp, a []Value) Value { return strings.TrimSuffix(concStr(a[0]), concStr(a[1])) }))
	reg("strings.TrimPrefix", pure(func(it *Interp, a []Value) Value { return strings.TrimPrefix(concStr(a[0]), concStr(a[1])) }))
	reg("strings.Trim", pure(func(it *Interp, a []Value) Value { return strings.Trim(concStr(a[0]), concStr(a[1])) }))
	reg("strings.Repeat", pure(func(it *Interp, a []Value) Value { return strings.Repeat(concStr(a[0]), int(cint(a[1]))) }))
	reg("strings.Join", pure(func(it *Interp, a []Value) Value { return strings.Join(strSlice(a[0]), concStr(a[1])) }))
	reg("strings.Split", pure(func(it *Interp, a []Value) Value { return mkStrSlice(strings.Split(concStr(a[0]), concStr(a[1]))) }))
	reg("strings.Fields", pure(func(it *Interp, a []Value) Value { return mkStrSlice(strings.Fields(concStr(a[0]))) }))
	reg("strings.EqualFold", pure(func(it *Interp, a []Value) Value { return BoolV{C: strings.EqualFold(concStr(a[0]), concStr(a[1]))} }))
	reg("strings.Replace", pure(func(it *Interp, a []Value) Value {
		return strings.Replace(concStr(a[0]), concStr(a[1]), concStr(a[2]), int(cint(a[3])))
	}))
	reg("strings.ReplaceAll", pure(func(it *Interp, a []Value) Value {
		return strings.ReplaceAll(concStr(a[0]), concStr(a[1]), concStr(a[2]))
	}))
	reg("(*strings.Builder).WriteString", pure(func(it *Interp, a []Value) Value {
		s := concStr(a[1])
		it.sbOf(a[0]).sb.WriteString(s)
		return Tuple{goInt(len(s)), Iface{}}
	}))
	reg("(*strings.Builder).WriteByte", pure(func(it *Interp, a []Value) Value {
		it.sbOf(a[0]).sb.WriteByte(byte(cint(a[1])))
		return Iface{}
	}))
	reg("(*strings.Builder).WriteRune", pure(func(it *Interp, a []Value) Value {
		n, _ := it.sbOf(a[0]).sb.WriteRune(rune(cint(a[1])))
		return Tuple{goInt(n), Iface{}}
	}))
	reg("(*strings.Builder).String", pure(func(it *Interp, a []Value) Value { return it.sbOf(a[0]).sb.String() }))
	reg("(*strings.Builder).Len", pure(func(it *Interp, a []Value) Value { return goInt(it.sbOf(a[0]).sb.Len()) }))
	reg("(*strings.Builder).Reset", pure(func(it *Interp, a []Value) Value { it.sbOf(a[0]).sb.Reset(); return nil }))
	reg("(*strings.Builder).Grow", noop)
	reg("unicode.IsSpace", pure(func(it *Interp, a []Value) Value { return BoolV{C: unicode.IsSpace(rune(cint(a[0])))} }))
	reg("unicode.IsUpper", pure(func(it *Interp, a []Value) Value { return BoolV{C: unicode.IsUpper(rune(cint(a[0])))} }))
	reg("unicode.IsLower", pure(func(it *Interp, a []Value) Value { return BoolV{C: unicode.IsLower(rune(cint(a[0])))} }))
	reg("unicode.ToLower", pure(func(it *Interp, a []Value) Value { return mkInt(uint64(unicode.ToLower(rune(cint(a[0])))), 32, true) }))
	reg("unicode.ToUpper", pure(func(it *Interp, a []Value) Value { return mkInt(uint64(unicode.ToUpper(rune(cint(a[0])))), 32, true) }))

	// ----- strconv -----
	reg("strconv.Itoa", pure(func(it *Interp, a []Value) Value {
		iv := a[0].(IntV)
		if iv.T != nil {
			return symMarker
		}
		return strconv.Itoa(int(iv.Int64()))
	}))
	reg("strconv.Quote", pure(func(it *Interp, a []Value) Value { return strconv.Quote(concStr(a[0])) }))

	// ----- reflect (type identity only) -----
	reg("reflect.TypeOf", pure(func(it *Interp, a []Value) Value { return it.rtypeOf(a[0].(Iface).T) }))
	// reflect.Value, restricted to "what kind of value does this interface hold, and is it nil" (the typed-nil idiom):
	// the value is carried in the struct's first field; every other method of reflect.Value stays unsupported
	reg("reflect.ValueOf", pure(func(it *Interp, a []Value) Value {
		return StructV{&Native{Kind: "rvalue", Obj: a[0].(Iface)}, nil, mkInt(0, 64, false)}
	}))
	rvalOf := func(v Value) Iface {
		if sv, ok := v.(StructV); ok && len(sv) > 0 {
			if n, ok := sv[0].(*Native); ok && n != nil && n.Kind == "rvalue" {
				return n.Obj.(Iface)
			}
		}
		panic(unsupported("reflect.Value not produced by reflect.ValueOf"))
	}
	reg("(reflect.Value).Kind", pure(func(it *Interp, a []Value) Value {
		iv := rvalOf(a[0])
		if iv.T == nil {
			return mkInt(0, 64, false) // Invalid
		}
		return mkInt(uint64(reflectKind(iv.T)), 64, false)
	}))
	reg("(reflect.Value).IsValid", pure(func(it *Interp, a []Value) Value { return BoolV{C: rvalOf(a[0]).T != nil} }))
	reg("(reflect.Value).IsNil", pure(func(it *Interp, a []Value) Value {
		iv := rvalOf(a[0])
		if iv.T == nil {
			panic(unsupported("reflect: IsNil of the zero Value panics"))
		}
		switch iv.T.Underlying().(type) {
		case *types.Pointer, *types.Map, *types.Slice, *types.Chan, *types.Signature, *types.Interface:
			return BoolV{C: isNilValue(iv.V)}
		}
		panic(unsupported("reflect: IsNil of a non-nillable kind panics"))
	}))
	reg("native:rtype.Kind", pure(func(it *Interp, a []Value) Value {
		t := a[0].(*Native).Obj.(types.Type)
		return mkInt(uint64(reflectKind(t)), 64, false)
	}))
	reg("native:rtype.String", pure(func(it *Interp, a []Value) Value {
		return typeString(a[0].(*Native).Obj.(types.Type))
	}))
	reg("native:rtype.Name", pure(func(it *Interp, a []Value) Value {
		if n, ok := a[0].(*Native).Obj.(*types.Named); ok {
			return n.Obj().Name()
		}
		return ""
	}))
	reg("native:rtype.Elem", pure(func(it *Interp, a []Value) Value {
		switch t := a[0].(*Native).Obj.(types.Type).Underlying().(type) {
		case *types.Pointer:
			return it.rtypeOf(t.Elem())
		case *types.Slice:
			return it.rtypeOf(t.Elem())
		}
		panic(unsupported("reflect Type.Elem on this kind"))
	}))

	// ----- logging / telemetry: empty bodies -----
	for _, m := range []string{"Info", "Error", "Warn", "Debug", "InfoContext", "ErrorContext", "WarnContext", "DebugContext", "Log"} {
		reg("(*log/slog.Logger)."+m, noop)
	}
	reg("github.com/gostdlib/base/telemetry/log.Fatalf", func(it *Interp, g *G, fr *Frame, a []Value, cc *ssa.CallCommon) (Value, status) {
		s, _ := it.format(concStr(a[0]), variadic(a[1]))
		it.fault("fatal", "log.Fatalf", "process exit: "+s, fr)
		return nil, stOK
	})
	reg("github.com/gostdlib/base/telemetry/log.Fatal", func(it *Interp, g *G, fr *Frame, a []Value, cc *ssa.CallCommon) (Value, status) {
		it.fault("fatal", "log.Fatal", "process exit", fr)
		return nil, stOK
	})
	reg("github.com/gostdlib/base/telemetry/log.Default", pure(func(it *Interp, a []Value) Value { return (*Value)(nil) }))
	reg("github.com/gostdlib/base/telemetry/log.Println", noop)
	reg("github.com/gostdlib/base/telemetry/log.Printf", noop)
	reg("log.Println", noop)
	reg("log.Printf", noop)
	reg("log.Fatalf", func(it *Interp, g *G, fr *Frame, a []Value, cc *ssa.CallCommon) (Value, status) {
		s, _ := it.format(concStr(a[0]), variadic(a[1]))
		it.fault("fatal", "log.Fatalf", "process exit: "+s, fr)
		return nil, stOK
	})
	// statemachine helpers that use reflect/runtime and OTEL spans
	reg("github.com/gostdlib/base/statemachine.methodName", pure(func(it *Interp, a []Value) Value { return "state" }))
	reg("(github.com/gostdlib/base/telemetry/otel/trace/span.Span).Status", noop)
	reg("(github.com/gostdlib/base/telemetry/otel/trace/span.Span).Event", noop)
	reg("(github.com/gostdlib/base/telemetry/otel/trace/span.Span).End", noop)
	reg("(github.com/gostdlib/base/telemetry/otel/trace/span.Span).IsRecording", pure(func(it *Interp, a []Value) Value { return BoolV{C: false} }))
	reg("github.com/gostdlib/base/telemetry/otel/trace/span.Get", func(it *Interp, g *G, fr *Frame, a []Value, cc *ssa.CallCommon) (Value, status) {
		return zero(it.namedType("github.com/gostdlib/base/telemetry/otel/trace/span", "Span")), stOK
	})
	// sync.Pool-like helper of gostdlib used by the statemachine's package initialiser
	reg("github.com/gostdlib/base/concurrency/sync.NewPool", pure(func(it *Interp, a []Value) Value { return (*Value)(nil) }))
	reg("regexp.MustCompile", pure(func(it *Interp, a []Value) Value { return (*Value)(nil) }))
	reg("github.com/google/uuid.EnableRandPool", noop)
}

func reflectKind(t types.Type) int {
	switch u := t.Underlying().(type) {
	case *types.Basic:
		switch u.Kind() {
		case types.Bool:
			return 1
		case types.Int:
			return 2
		case types.Int8:
			return 3
		case types.Int16:
			return 4
		case types.Int32:
			return 5
		case types.Int64:
			return 6
		case types.Uint:
			return 7
		case types.Uint8:
			return 8
		case types.Uint16:
			return 9
		case types.Uint32:
			return 10
		case types.Uint64:
			return 11
		case types.Uintptr:
			return 12
		case types.Float32:
			return 13
		case types.Float64:
			return 14
		case types.String:
			return 24
		}
	case *types.Array:
		return 17
	case *types.Chan:
		return 18
	case *types.Signature:
		return 19
	case *types.Interface:
		return 20
	case *types.Map:
		return 21
	case *types.Pointer:
		return 22
	case *types.Slice:
		return 23
	case *types.Struct:
		return 25
	}
	return 0
}

var _ = fmt.Sprint
var _ = smt.True

func init() {
	// registry.findSecrets is reflection over the plugin's request/response types (property C17, not claimed);
	// the model plugin's types have no secret-looking field names, so the real function returns nil as well.
	reg(RepoModule+"/plugins/registry.findSecrets", pure(func(it *Interp, a []Value) Value { return Iface{} }))
}

func init() {
	// gostdlib errors.E: fills Category, Type and Msg; file/line (runtime.Caller), time, tracing and metrics are dropped.
	reg("github.com/gostdlib/base/errors.E", func(it *Interp, g *G, fr *Frame, a []Value, cc *ssa.CallCommon) (Value, status) {
		t := it.namedType("github.com/gostdlib/base/errors", "Error")
		e := zero(t).(StructV)
		e[0] = a[1]
		e[1] = a[2]
		e[2] = a[3]
		return e, stOK
	})
}

func init() {
	// deep.MustCopy (reflection + unsafe): replaced by the interpreter's deep copy, which is its contract.
	reg("github.com/brunoga/deep.MustCopy", func(it *Interp, g *G, fr *Frame, a []Value, cc *ssa.CallCommon) (Value, status) {
		return it.deepCopy(a[0], map[any]any{}), stOK
	})
	reg("github.com/brunoga/deep.Copy", func(it *Interp, g *G, fr *Frame, a []Value, cc *ssa.CallCommon) (Value, status) {
		return Tuple{it.deepCopy(a[0], map[any]any{}), Iface{}}, stOK
	})
	// clone.Secure is a reflective walk that zeroes `coerce:"secure"` fields (property C17, not claimed):
	// assumed to touch nothing else; the model request/response types carry no such tag.
	reg(RepoModule+"/workflow/utils/clone.Secure", noop)
	reg(RepoModule+"/workflow.Secure", noop)
}
