package sx

import (
	"fmt"
	"unsafe"
	"go/token"
	"go/types"
	"unicode/utf8"

	"gosx/smt"

	"golang.org/x/tools/go/ssa"
)

func (it *Interp) exec(g *G, fr *Frame, ins ssa.Instruction) {
	switch x := ins.(type) {
	case *ssa.DebugRef:
		fr.pc++
	case *ssa.Alloc:
		a := new(Value)
		*a = zero(x.Type().(*types.Pointer).Elem())
		it.set(fr, x, a)
		fr.pc++
	case *ssa.UnOp:
		if x.Op == token.ARROW {
			if !it.execRecv(g, fr, x) {
				return
			}
			fr.pc++
			return
		}
		it.set(fr, x, it.unop(fr, x))
		fr.pc++
	case *ssa.BinOp:
		it.set(fr, x, it.binop(fr, x.Op, x.X.Type(), it.get(fr, x.X), it.get(fr, x.Y), x.Type()))
		fr.pc++
	case *ssa.Call:
		if it.maybePreempt(g, fr, ins) {
			return
		}
		st := it.doCall(g, fr, &x.Call, x)
		switch st {
		case stOK:
			fr.pc++
		case stBlock, stPushed:
		}
	case *ssa.ChangeInterface:
		it.set(fr, x, it.get(fr, x.X))
		fr.pc++
	case *ssa.ChangeType:
		it.set(fr, x, it.get(fr, x.X))
		fr.pc++
	case *ssa.Convert:
		it.set(fr, x, it.convert(fr, x.X.Type(), x.Type(), it.get(fr, x.X)))
		fr.pc++
	case *ssa.MultiConvert:
		it.set(fr, x, it.convert(fr, x.X.Type(), x.Type(), it.get(fr, x.X)))
		fr.pc++
	case *ssa.SliceToArrayPointer:
		s := it.get(fr, x.X).(SliceV)
		n := int(x.Type().(*types.Pointer).Elem().Underlying().(*types.Array).Len())
		if len(s.S) < n {
			it.fault("panic", "slice-to-array", "slice too short for array pointer conversion", fr)
		}
		if s.Nil {
			it.set(fr, x, (*Value)(nil))
		} else {
			a := new(Value)
			*a = ArrayV(s.S[:n:n])
			it.set(fr, x, a)
		}
		fr.pc++
	case *ssa.MakeInterface:
		it.set(fr, x, Iface{T: x.X.Type(), V: copyVal(it.get(fr, x.X))})
		fr.pc++
	case *ssa.MakeClosure:
		fn := x.Fn.(*ssa.Function)
		env := make([]Value, len(x.Bindings))
		for i, b := range x.Bindings {
			env[i] = it.get(fr, b)
		}
		it.set(fr, x, &Closure{Fn: fn, Env: env})
		fr.pc++
	case *ssa.MakeMap:
		mt := x.Type().Underlying().(*types.Map)
		it.set(fr, x, newMap(mt.Key(), mt.Elem()))
		fr.pc++
	case *ssa.MakeChan:
		sz := it.get(fr, x.Size).(IntV)
		it.set(fr, x, &Chan{cap: sz, elem: x.Type().Underlying().(*types.Chan).Elem(), id: it.nextChanID()})
		fr.pc++
	case *ssa.MakeSlice:
		ln := it.concretize(it.get(fr, x.Len).(IntV), "make len", 8)
		cp := it.concretize(it.get(fr, x.Cap).(IntV), "make cap", 8)
		l, c := int(ln.Int64()), int(cp.Int64())
		if l < 0 || c < l || c > 1<<20 {
			it.fault("panic", "makeslice", fmt.Sprintf("makeslice: len %d cap %d out of range", l, c), fr)
		}
		et := x.Type().Underlying().(*types.Slice).Elem()
		s := make([]Value, l, c)
		full := s[:c]
		for i := range full {
			full[i] = zero(et)
		}
		it.set(fr, x, SliceV{S: s})
		fr.pc++
	case *ssa.Slice:
		it.set(fr, x, it.sliceOp(fr, x))
		fr.pc++
	case *ssa.FieldAddr:
		p, _ := it.get(fr, x.X).(*Value)
		if p == nil {
			it.fault("panic", "nil-deref", fmt.Sprintf("nil pointer dereference (field %d of %v)", x.Field, x.X.Type()), fr)
		}
		s, ok := (*p).(StructV)
		if !ok {
			panic(unsupported("FieldAddr on %T (%v)", *p, x.X.Type()))
		}
		it.set(fr, x, &s[x.Field])
		fr.pc++
	case *ssa.Field:
		s, ok := it.get(fr, x.X).(StructV)
		if !ok {
			panic(unsupported("Field on %T", it.get(fr, x.X)))
		}
		it.set(fr, x, copyVal(s[x.Field]))
		fr.pc++
	case *ssa.IndexAddr:
		base := it.get(fr, x.X)
		var elems []Value
		switch b := base.(type) {
		case *Value:
			if b == nil {
				it.fault("panic", "nil-deref", "nil pointer dereference (index of nil array pointer)", fr)
			}
			elems = []Value((*b).(ArrayV))
		case SliceV:
			elems = b.S
		default:
			panic(unsupported("IndexAddr on %T", base))
		}
		i := it.index(fr, it.get(fr, x.Index).(IntV), len(elems))
		it.set(fr, x, &elems[i])
		fr.pc++
	case *ssa.Index:
		base := it.get(fr, x.X)
		switch b := base.(type) {
		case ArrayV:
			i := it.index(fr, it.get(fr, x.Index).(IntV), len(b))
			it.set(fr, x, copyVal(b[i]))
		case string:
			i := it.index(fr, it.get(fr, x.Index).(IntV), len(b))
			it.set(fr, x, mkInt(uint64(b[i]), 8, false))
		default:
			panic(unsupported("Index on %T", base))
		}
		fr.pc++
	case *ssa.Lookup:
		it.set(fr, x, it.lookup(fr, x))
		fr.pc++
	case *ssa.MapUpdate:
		m, _ := it.get(fr, x.Map).(*MapV)
		if m == nil {
			it.fault("panic", "nil-map", "assignment to entry in nil map", fr)
		}
		if err := m.set(copyVal(it.get(fr, x.Key)), copyVal(it.get(fr, x.Value))); err != nil {
			panic(unsupported("%v", err))
		}
		fr.pc++
	case *ssa.TypeAssert:
		it.set(fr, x, it.typeAssert(fr, x))
		fr.pc++
	case *ssa.Extract:
		t := it.get(fr, x.Tuple).(Tuple)
		it.set(fr, x, t[x.Index])
		fr.pc++
	case *ssa.Phi:
		// all phis of a block are evaluated in parallel on entry (see jump)
		panic(unsupported("stray phi"))
	case *ssa.Range:
		it.set(fr, x, it.rangeIter(fr, x))
		fr.pc++
	case *ssa.Next:
		it.set(fr, x, it.next(fr, x))
		fr.pc++
	case *ssa.Store:
		p, _ := it.get(fr, x.Addr).(*Value)
		if p == nil {
			it.fault("panic", "nil-deref", "nil pointer dereference (store)", fr)
		}
		storeInto(p, copyVal(it.get(fr, x.Val)))
		fr.pc++
	case *ssa.Send:
		if it.maybePreempt(g, fr, ins) {
			return
		}
		if !it.execSend(g, fr, x) {
			return
		}
		fr.pc++
	case *ssa.Select:
		if it.maybePreempt(g, fr, ins) {
			return
		}
		if !it.execSelect(g, fr, x) {
			return
		}
		fr.pc++
	case *ssa.Go:
		it.execGo(g, fr, x)
		fr.pc++
	case *ssa.Defer:
		var d deferred
		if x.Call.IsInvoke() {
			recv := it.get(fr, x.Call.Value).(Iface)
			if recv.T == nil {
				it.fault("panic", "nil-deref", "deferred method call on nil interface", fr)
			}
			if nat, ok := recv.V.(*Native); ok && nat != nil {
				d.fn = &Closure{Intr: "native:" + nat.Kind + "." + x.Call.Method.Name(), IntrA: []Value{nat}}
			} else {
				m := it.P.Prog.LookupMethod(recv.T, x.Call.Method.Pkg(), x.Call.Method.Name())
				d.fn = &Closure{Fn: m}
				d.args = append(d.args, recv.V)
			}
		} else {
			d.fn = it.get(fr, x.Call.Value)
		}
		for _, a := range x.Call.Args {
			d.args = append(d.args, it.get(fr, a))
		}
		d.call = &x.Call
		fr.defers = append(fr.defers, d)
		fr.pc++
	case *ssa.RunDefers:
		if len(fr.defers) == 0 {
			fr.pc++
			return
		}
		d := fr.defers[len(fr.defers)-1]
		st := it.callDeferred(g, fr, d)
		if st == stBlock {
			return
		}
		// popped only once the call has been issued
		fr.defers = fr.defers[:len(fr.defers)-1]
	case *ssa.If:
		c := it.get(fr, x.Cond).(BoolV)
		if it.branch(c) {
			it.jump(fr, fr.block.Succs[0])
		} else {
			it.jump(fr, fr.block.Succs[1])
		}
	case *ssa.Jump:
		it.jump(fr, fr.block.Succs[0])
	case *ssa.Return:
		var res Value
		switch len(x.Results) {
		case 0:
		case 1:
			res = copyVal(it.get(fr, x.Results[0]))
		default:
			t := make(Tuple, len(x.Results))
			for i, r := range x.Results {
				t[i] = copyVal(it.get(fr, r))
			}
			res = t
		}
		if len(fr.defers) > 0 {
			panic(unsupported("return with pending defers (missing RunDefers) in %s", fr.fn))
		}
		it.finishFrame(g, fr, res)
	case *ssa.Panic:
		v := it.get(fr, x.X)
		if ifc, ok := v.(Iface); ok {
			if s, ok := ifc.V.(string); ok && s == "gosx:stripped" {
				if it.initDepth > 0 {
					it.stubsSeen["init-opaque:"+fr.fn.String()] = true
					var z Value
					if r := fr.fn.Signature.Results(); r.Len() == 1 {
						z = zero(r.At(0).Type())
					} else if r.Len() > 1 {
						z = zero(r)
					}
					fr.defers = nil
					it.finishFrame(g, fr, z)
					return
				}
				panic(unsupported("call to a dependency function whose body is not loaded: %s", fr.fn))
			}
		}
		it.fault("panic", "explicit-panic", "panic: "+it.render(v, nil), fr)
	default:
		panic(unsupported("instruction %T", ins))
	}
}

func (it *Interp) callDeferred(g *G, fr *Frame, d deferred) status {
	cl, _ := d.fn.(*Closure)
	if cl == nil {
		it.fault("panic", "nil-func", "deferred call of nil function", fr)
	}
	before := len(g.stack)
	st := it.callValue(g, fr, d.fn, d.args, d.call, nil)
	if st == stPushed && len(g.stack) > before {
		g.stack[len(g.stack)-1].fromRunDefers = true
	}
	return st
}

func (it *Interp) jump(fr *Frame, to *ssa.BasicBlock) {
	from := fr.block
	fr.prev = from
	fr.block = to
	fr.pc = 0
	// evaluate phis in parallel
	var idx = -1
	for i, p := range to.Preds {
		if p == from {
			idx = i
			break
		}
	}
	var vals []Value
	n := 0
	for _, ins := range to.Instrs {
		phi, ok := ins.(*ssa.Phi)
		if !ok {
			break
		}
		vals = append(vals, it.get(fr, phi.Edges[idx]))
		n++
	}
	for i := 0; i < n; i++ {
		it.set(fr, to.Instrs[i].(*ssa.Phi), vals[i])
	}
	fr.pc = n
}

// index bounds-checks i against n (a solver query when symbolic) and returns a concrete index.
func (it *Interp) index(fr *Frame, i IntV, n int) int {
	if i.T == nil {
		v := i.Int64()
		if !i.S {
			if i.C >= uint64(n) {
				it.fault("panic", "index-out-of-range", fmt.Sprintf("index %d out of range [0,%d)", i.C, n), fr)
			}
			return int(i.C)
		}
		if v < 0 || v >= int64(n) {
			it.fault("panic", "index-out-of-range", fmt.Sprintf("index %d out of range [0,%d)", v, n), fr)
		}
		return int(v)
	}
	w := int(i.W)
	var inb *smt.Term
	if i.S {
		inb = smt.And(smt.Cmp("bvsge", i.T, smt.Const(0, w)), smt.Cmp("bvslt", i.T, smt.Const(uint64(n), w)))
	} else {
		inb = smt.Cmp("bvult", i.T, smt.Const(uint64(n), w))
	}
	if !it.branch(boolFromTerm(inb)) {
		it.fault("panic", "index-out-of-range", fmt.Sprintf("symbolic index out of range [0,%d)", n), fr)
	}
	c := it.concretize(i, "index", 64)
	return int(c.Int64())
}

func (it *Interp) concInt(v Value, what string) int {
	iv := v.(IntV)
	c := it.concretize(iv, what, 16)
	return int(c.Int64())
}

func (it *Interp) unop(fr *Frame, x *ssa.UnOp) Value {
	v := it.get(fr, x.X)
	switch x.Op {
	case token.MUL:
		p, _ := v.(*Value)
		if p == nil {
			it.fault("panic", "nil-deref", fmt.Sprintf("nil pointer dereference (load of %v)", x.X.Type()), fr)
		}
		return copyVal(*p)
	case token.NOT:
		b := v.(BoolV)
		if b.T == nil {
			return BoolV{C: !b.C}
		}
		return boolFromTerm(smt.Not(b.T))
	case token.SUB:
		switch n := v.(type) {
		case IntV:
			if n.T == nil {
				return mkInt(-n.C, int(n.W), n.S)
			}
			return intFromTerm(smt.Neg(n.T), n.S)
		case float64:
			return -n
		case FloatHavoc:
			return n
		}
	case token.XOR:
		n := v.(IntV)
		if n.T == nil {
			return mkInt(^n.C, int(n.W), n.S)
		}
		return intFromTerm(smt.BvNot(n.T), n.S)
	}
	panic(unsupported("unop %v on %T", x.Op, v))
}

func (it *Interp) lookup(fr *Frame, x *ssa.Lookup) Value {
	base := it.get(fr, x.X)
	if s, ok := base.(string); ok {
		i := it.index(fr, it.get(fr, x.Index).(IntV), len(s))
		return mkInt(uint64(s[i]), 8, false)
	}
	m, _ := base.(*MapV)
	mt := x.X.Type().Underlying().(*types.Map)
	v, ok, err := m.get(it.get(fr, x.Index))
	if err != nil {
		panic(unsupported("%v", err))
	}
	if !ok {
		v = zero(mt.Elem())
	}
	v = copyVal(v)
	if x.CommaOk {
		return Tuple{v, BoolV{C: ok}}
	}
	return v
}

func (it *Interp) implements(t types.Type, iface *types.Interface, it2 types.Type) bool {
	k := implKey{t, it2}
	if v, ok := it.P.implM.Load(k); ok {
		return v.(bool)
	}
	r := types.Implements(t, iface)
	it.P.implM.Store(k, r)
	return r
}

func (it *Interp) typeAssert(fr *Frame, x *ssa.TypeAssert) Value {
	v, ok := it.get(fr, x.X).(Iface)
	if !ok {
		panic(unsupported("TypeAssert on %T", it.get(fr, x.X)))
	}
	var res Value
	good := false
	if ai, isIface := x.AssertedType.Underlying().(*types.Interface); isIface {
		if v.T != nil && it.implements(v.T, ai, x.AssertedType) {
			good = true
			res = v
		} else {
			res = Iface{}
		}
	} else {
		if v.T != nil && types.Identical(v.T, x.AssertedType) {
			good = true
			res = copyVal(v.V)
		} else {
			res = zero(x.AssertedType)
		}
	}
	if x.CommaOk {
		return Tuple{res, BoolV{C: good}}
	}
	if !good {
		it.fault("panic", "type-assertion", fmt.Sprintf("interface conversion: %v is not %v", v.T, x.AssertedType), fr)
	}
	return res
}

func (it *Interp) sliceOp(fr *Frame, x *ssa.Slice) Value {
	base := it.get(fr, x.X)
	lo, hi, mx := -1, -1, -1
	if x.Low != nil {
		lo = it.concInt(it.get(fr, x.Low), "slice low")
	}
	if x.High != nil {
		hi = it.concInt(it.get(fr, x.High), "slice high")
	}
	if x.Max != nil {
		mx = it.concInt(it.get(fr, x.Max), "slice max")
	}
	switch b := base.(type) {
	case string:
		if lo < 0 {
			lo = 0
		}
		if hi < 0 {
			hi = len(b)
		}
		if lo > hi || hi > len(b) {
			it.fault("panic", "slice-bounds", fmt.Sprintf("slice bounds out of range [%d:%d] with length %d", lo, hi, len(b)), fr)
		}
		return b[lo:hi]
	case SliceV:
		c := cap(b.S)
		if lo < 0 {
			lo = 0
		}
		if hi < 0 {
			hi = len(b.S)
		}
		if mx < 0 {
			mx = c
		}
		if lo > hi || hi > mx || mx > c {
			it.fault("panic", "slice-bounds", fmt.Sprintf("slice bounds out of range [%d:%d:%d] with capacity %d", lo, hi, mx, c), fr)
		}
		if b.Nil {
			return SliceV{Nil: true}
		}
		return SliceV{S: b.S[:c][lo:hi:mx]}
	case *Value:
		if b == nil {
			it.fault("panic", "nil-deref", "slice of nil array pointer", fr)
		}
		arr := []Value((*b).(ArrayV))
		c := len(arr)
		if lo < 0 {
			lo = 0
		}
		if hi < 0 {
			hi = c
		}
		if mx < 0 {
			mx = c
		}
		if lo > hi || hi > mx || mx > c {
			it.fault("panic", "slice-bounds", "slice bounds out of range", fr)
		}
		return SliceV{S: arr[lo:hi:mx]}
	}
	panic(unsupported("Slice on %T", base))
}

// ---------- range ----------

type mapIter struct {
	m    *MapV
	keys []any
	i    int
}

type strIter struct {
	s string
	i int
}

func (it *Interp) rangeIter(fr *Frame, x *ssa.Range) Value {
	switch b := it.get(fr, x.X).(type) {
	case *MapV:
		mi := &mapIter{m: b}
		if b != nil {
			mi.keys = append(mi.keys, b.Keys...)
		}
		return &Native{Kind: "mapiter", Obj: mi}
	case string:
		return &Native{Kind: "striter", Obj: &strIter{s: b}}
	}
	panic(unsupported("range over %T", it.get(fr, x.X)))
}

func (it *Interp) next(fr *Frame, x *ssa.Next) Value {
	n := it.get(fr, x.Iter).(*Native)
	tt := x.Type().(*types.Tuple)
	switch o := n.Obj.(type) {
	case *mapIter:
		for o.i < len(o.keys) {
			k := o.keys[o.i]
			o.i++
			if e, ok := o.m.M[k]; ok {
				return Tuple{BoolV{C: true}, copyVal(e.K), copyVal(e.V)}
			}
		}
		var kz, vz Value
		if tt.At(1).Type() != nil {
			if _, inv := tt.At(1).Type().(*types.Basic); !inv || tt.At(1).Type().(*types.Basic).Kind() != types.Invalid {
				kz = zero(tt.At(1).Type())
			}
		}
		if b, inv := tt.At(2).Type().(*types.Basic); !inv || b.Kind() != types.Invalid {
			vz = zero(tt.At(2).Type())
		}
		return Tuple{BoolV{C: false}, kz, vz}
	case *strIter:
		if o.i >= len(o.s) {
			return Tuple{BoolV{C: false}, mkInt(0, 64, true), mkInt(0, 32, true)}
		}
		r, sz := utf8.DecodeRuneInString(o.s[o.i:])
		idx := o.i
		o.i += sz
		return Tuple{BoolV{C: true}, mkInt(uint64(idx), 64, true), mkInt(uint64(r), 32, true)}
	}
	panic(unsupported("next on %T", n.Obj))
}

// ---------- builtins ----------

func (it *Interp) builtin(g *G, fr *Frame, b *ssa.Builtin, args []Value, cc *ssa.CallCommon) Value {
	switch b.Name() {
	case "len":
		switch x := args[0].(type) {
		case string:
			return mkInt(uint64(len(x)), 64, true)
		case SliceV:
			return mkInt(uint64(len(x.S)), 64, true)
		case ArrayV:
			return mkInt(uint64(len(x)), 64, true)
		case *MapV:
			if x == nil {
				return mkInt(0, 64, true)
			}
			return mkInt(uint64(len(x.M)), 64, true)
		case *Chan:
			if x == nil {
				return mkInt(0, 64, true)
			}
			return mkInt(uint64(len(x.buf)), 64, true)
		case *Value:
			if x == nil {
				// len of nil *array is the array length (static); use the type
				if cc != nil {
					if pt, ok := cc.Args[0].Type().Underlying().(*types.Pointer); ok {
						return mkInt(uint64(pt.Elem().Underlying().(*types.Array).Len()), 64, true)
					}
				}
			}
			return mkInt(uint64(len((*x).(ArrayV))), 64, true)
		}
	case "cap":
		switch x := args[0].(type) {
		case SliceV:
			return mkInt(uint64(cap(x.S)), 64, true)
		case ArrayV:
			return mkInt(uint64(len(x)), 64, true)
		case *Chan:
			if x == nil {
				return mkInt(0, 64, true)
			}
			return x.cap
		}
	case "append":
		return it.appendOp(fr, args, cc)
	case "copy":
		dst := args[0].(SliceV)
		n := 0
		switch src := args[1].(type) {
		case SliceV:
			n = len(dst.S)
			if len(src.S) < n {
				n = len(src.S)
			}
			tmp := make([]Value, n)
			for i := 0; i < n; i++ {
				tmp[i] = copyVal(src.S[i])
			}
			copy(dst.S, tmp)
		case string:
			n = len(dst.S)
			if len(src) < n {
				n = len(src)
			}
			for i := 0; i < n; i++ {
				dst.S[i] = mkInt(uint64(src[i]), 8, false)
			}
		}
		return mkInt(uint64(n), 64, true)
	case "delete":
		m, _ := args[0].(*MapV)
		if err := m.del(args[1]); err != nil {
			panic(unsupported("%v", err))
		}
		return nil
	case "close":
		c, _ := args[0].(*Chan)
		if c == nil {
			it.fault("panic", "close-nil-chan", "close of nil channel", fr)
		}
		if c.closed {
			it.fault("panic", "close-closed-chan", "close of closed channel", fr)
		}
		c.closed = true
		return nil
	case "panic":
		it.fault("panic", "explicit-panic", "panic: "+it.render(args[0], nil), fr)
	case "recover":
		return Iface{}
	case "print", "println":
		return nil
	case "min", "max":
		acc := args[0]
		for _, a := range args[1:] {
			op := token.LSS
			if b.Name() == "max" {
				op = token.GTR
			}
			t := cc.Args[0].Type()
			c := it.binop(fr, op, t, a, acc, types.Typ[types.Bool]).(BoolV)
			if ai, ok := a.(IntV); ok {
				acci := acc.(IntV)
				acc = intFromTerm(smt.Ite(c.Term(), ai.Term(), acci.Term()), ai.S)
			} else if it.branch(c) {
				acc = a
			}
		}
		return acc
	case "clear":
		switch x := args[0].(type) {
		case *MapV:
			if x != nil {
				x.M = map[any]*mapEntry{}
				x.Keys = nil
			}
		}
		return nil
	case "String": // unsafe.String(ptr, len)
		p, _ := args[0].(*Value)
		n := int(cint(args[1]))
		if n == 0 {
			return ""
		}
		if p == nil {
			it.fault("panic", "unsafe-string", "unsafe.String: ptr is nil and len is not zero", fr)
		}
		cells := unsafe.Slice(p, n)
		bs := make([]byte, n)
		for i, c := range cells {
			bv := it.concretize(c.(IntV), "unsafe.String byte", 2)
			bs[i] = byte(bv.C)
		}
		return string(bs)
	case "SliceData":
		s := args[0].(SliceV)
		if s.Nil || cap(s.S) == 0 {
			return (*Value)(nil)
		}
		return &s.S[:1][0]
	case "StringData":
		str := args[0].(string)
		if len(str) == 0 {
			return (*Value)(nil)
		}
		cells := make([]Value, len(str))
		for i := 0; i < len(str); i++ {
			cells[i] = mkInt(uint64(str[i]), 8, false)
		}
		return &cells[0]
	case "Slice": // unsafe.Slice(ptr, len)
		p, _ := args[0].(*Value)
		n := int(cint(args[1]))
		if p == nil {
			return SliceV{Nil: true}
		}
		return SliceV{S: unsafe.Slice(p, n)}
	case "ssa:wrapnilchk":
		p, _ := args[0].(*Value)
		if p == nil {
			it.fault("panic", "nil-deref", "value method called using nil pointer", fr)
		}
		return args[0]
	}
	panic(unsupported("builtin %s on %T", b.Name(), args[0]))
}

// growCap mirrors runtime.growslice's capacity rule (nextslicecap + size-class rounding) for small slices.
func growCap(oldCap, newLen, elemSize int) int {
	newcap := oldCap
	doublecap := newcap + newcap
	if newLen > doublecap {
		newcap = newLen
	} else {
		const threshold = 256
		if oldCap < threshold {
			newcap = doublecap
		} else {
			for newcap < newLen {
				newcap += (newcap + 3*threshold) >> 2
			}
		}
	}
	if elemSize <= 0 {
		return newcap
	}
	// round the allocation up to a malloc size class
	mem := newcap * elemSize
	classes := []int{8, 16, 24, 32, 48, 64, 80, 96, 112, 128, 144, 160, 176, 192, 208, 224, 240, 256, 288, 320, 352, 384, 416, 448, 480, 512, 576, 640, 704, 768, 896, 1024, 1152, 1280, 1408, 1536, 1792, 2048, 2304, 2688, 3072, 3200, 3456, 4096, 4864, 5376, 6144, 6528, 6784, 6912, 8192}
	for _, c := range classes {
		if mem <= c {
			return c / elemSize
		}
	}
	return newcap
}

var sizes = types.SizesFor("gc", "amd64")

func (it *Interp) appendOp(fr *Frame, args []Value, cc *ssa.CallCommon) Value {
	dst := args[0].(SliceV)
	var add []Value
	switch s := args[1].(type) {
	case SliceV:
		add = s.S
	case string:
		for i := 0; i < len(s); i++ {
			add = append(add, mkInt(uint64(s[i]), 8, false))
		}
	default:
		panic(unsupported("append of %T", args[1]))
	}
	if len(add) == 0 {
		return dst
	}
	n := len(dst.S) + len(add)
	if n <= cap(dst.S) {
		out := dst.S[:n]
		for i, v := range add {
			out[len(dst.S)+i] = copyVal(v)
		}
		return SliceV{S: out}
	}
	es := 8
	var et types.Type
	if cc != nil {
		if st, ok := cc.Args[0].Type().Underlying().(*types.Slice); ok {
			et = st.Elem()
			es = int(sizes.Sizeof(et))
		}
	}
	nc := growCap(cap(dst.S), n, es)
	if nc < n {
		nc = n
	}
	out := make([]Value, n, nc)
	for i, v := range dst.S {
		out[i] = v // cells move: old backing array keeps its own copies below
	}
	// the old backing array must stay intact and independent: copy values, not cells
	for i := range dst.S {
		out[i] = copyVal(dst.S[i])
	}
	for i, v := range add {
		out[len(dst.S)+i] = copyVal(v)
	}
	if et != nil {
		full := out[:nc]
		for i := n; i < nc; i++ {
			full[i] = zero(et)
		}
	}
	return SliceV{S: out}
}
