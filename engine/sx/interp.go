package sx

import (
	"fmt"
	"go/constant"
	"go/token"
	"go/types"
	"sort"
	"strings"
	"sync"

	"gosx/smt"

	"golang.org/x/tools/go/ssa"
)

// ---------- program-wide (shared, read-only after Load) ----------

type Program struct {
	Prog  *ssa.Program
	Fset  *token.FileSet
	Pkgs  map[string]*ssa.Package // by import path
	infoM sync.Map                // *ssa.Function -> *fnInfo
	implM sync.Map                // implKey -> bool
	mu    sync.Mutex              // guards lazy SSA building of functions

	RepoModule string
	RepoDir    string
}

type fnInfo struct {
	idx  map[ssa.Value]int
	n    int
	name string
}

func (p *Program) info(fn *ssa.Function) *fnInfo {
	if v, ok := p.infoM.Load(fn); ok {
		return v.(*fnInfo)
	}
	fi := &fnInfo{idx: map[ssa.Value]int{}, name: fn.String()}
	for _, x := range fn.Params {
		fi.idx[x] = fi.n
		fi.n++
	}
	for _, x := range fn.FreeVars {
		fi.idx[x] = fi.n
		fi.n++
	}
	for _, b := range fn.Blocks {
		for _, ins := range b.Instrs {
			if v, ok := ins.(ssa.Value); ok {
				fi.idx[v] = fi.n
				fi.n++
			}
		}
	}
	v, _ := p.infoM.LoadOrStore(fn, fi)
	return v.(*fnInfo)
}

type implKey struct {
	t types.Type
	i types.Type
}

// ---------- path termination (panics caught in Run) ----------

type pathEnd struct {
	Kind  string // "drop" (infeasible/assume), "unsupported", "fault", "truncated", "done"
	Label string
	Msg   string
}

func (e pathEnd) Error() string { return e.Kind + ": " + e.Label + ": " + e.Msg }

func unsupported(format string, a ...any) pathEnd {
	return pathEnd{Kind: "unsupported", Label: "unsupported", Msg: fmt.Sprintf(format, a...)}
}

// ---------- per-path state ----------

type deferred struct {
	fn   Value
	args []Value
	call *ssa.CallCommon
}

type Frame struct {
	fn     *ssa.Function
	info   *fnInfo
	regs   []Value
	block  *ssa.BasicBlock
	prev   *ssa.BasicBlock
	pc     int
	defers []deferred
	// where to put the result in the caller
	retTo   ssa.Value // nil => discard
	discard bool
	// sync call marker: when this frame returns, the nested run loop stops
	syncStop bool
	result   Value
	// deferred-call bookkeeping: a frame started by RunDefers returns to the same instruction
	fromRunDefers bool
}

type G struct {
	id        int
	name      string
	stack     []*Frame
	done      bool
	wait      func() bool // non-nil => blocked until wait() is true
	waitOn    string
	pending   *pendingSend
	atSwitch  bool // a scheduling decision has just been taken at the current instruction
	selPick   int  // select case picked by the scheduler for the retried select (-1 none)
	syncDepth int
	parked    bool // slow-yield policy: waiting at the end of a plugin call until nothing else can run
	parkSeq   int
}

type Violation struct {
	Kind      string            `json:"kind"` // assert | panic | deadlock | fatal
	Label     string            `json:"label"`
	Msg       string            `json:"msg"`
	Where     string            `json:"where"`
	Model     map[string]int64  `json:"model"`
	Decisions []int64           `json:"decisions"`
	Facts     map[string]string `json:"facts"`
	Trace     []string          `json:"trace"`
	Harness   string            `json:"harness"`
	Choices   map[string]int64  `json:"choices"`
	// Alternates: further witnesses of the same violation reached along other paths (other schedules, other inputs).
	Alternates []*Violation `json:"-"`
	// Races: see Interp.races; witnesses with fewer races are replayed first.
	Races int `json:"races"`
}

type Config struct {
	Harness         string
	Tier            string // quick | thorough
	MaxSteps        int
	Preemptions     int
	SwitchOn        map[string]bool  // chan lock atomic yield go
	Ticks           int              // ticks offered by each Ticker
	SlowYield       []string         // switch classes (prefixes) at which a goroutine parks by default: "plugin calls are slow"
	Bounds          map[string]int   // echoed Bound() values
	Concrete        map[string]int64 // concrete mode (selftest/validation): values for nondet vars
	ConcreteChoices map[string]int64
}

type Interp struct {
	P                    *Program
	Cfg                  *Config
	Solver               *smt.Solver
	Solver2              *smt.Solver // optional cross-check solver
	CrossEvery           int
	crossCtr             int
	nCross, crossUnknown int

	pc       []pcEntry
	dsu      map[string]string
	varCache map[int64][]string
	pending  []pendingAssert
	prefix   []int64
	taken    []int64
	kinds    []string
	newWork  [][]int64

	globals map[*ssa.Global]*Value
	inited  map[*ssa.Package]bool
	gs      []*G
	cur     *G
	steps   int
	preempt int
	parkCtr int
	races   int // scheduling decisions taken while another goroutine, just woken from a blocking wait, was free to run (the native replay controller cannot order those)

	vars       []*smt.Term
	varSeq     map[string]int
	trace      []string
	facts      map[string]string
	reached    map[string]bool
	boundsUsed map[string]int
	fnsSeen    map[string]bool
	stubsSeen  map[string]bool

	violations    []*Violation
	nBranchQ      int
	floatBranches int

	side         map[any]any // side tables for intrinsics (mutex state, sharded maps, ...)
	uuidCtr      int
	clock        *smt.Term // last clock reading
	clockN       int
	clockLogical bool
	clockReads   []IntV
	mainDone     bool
	quiescing    bool
	chooseSeq    map[string]int
	choices      map[string]int64

	initDepth       int
	unknownBranches int
	nAsserts        int
	nAssertQ        int
	ctxCtr          int
	chanCtr         int
	renderDepth     int
	evalAlias       map[int64]*smt.Term
	varByName       map[string]*smt.Term
	model           map[string]uint64
	candModel       map[string]uint64
	candFor         *smt.Term
	freshBefore     map[string]bool
	modelHits       int
	modelBroken     bool
	pinned          map[int64]uint64
	excluded        map[int64]map[uint64]bool
	leafCache       map[int64]map[uint64]bool
	sqlPools        []*sqlPool
	sqlFaults       bool
	sqlInjected     int
	sqlTexts        map[string]bool
	jsonSeq         int
	jsonToks        map[int]*jsonTok
}

func NewInterp(p *Program, cfg *Config, solver *smt.Solver, prefix []int64) *Interp {
	it := &Interp{
		P: p, Cfg: cfg, Solver: solver, prefix: prefix,
		globals: map[*ssa.Global]*Value{}, inited: map[*ssa.Package]bool{},
		varSeq: map[string]int{}, facts: map[string]string{}, reached: map[string]bool{},
		boundsUsed: map[string]int{}, fnsSeen: map[string]bool{}, stubsSeen: map[string]bool{},
		side: map[any]any{}, chooseSeq: map[string]int{}, choices: map[string]int64{}, sqlTexts: map[string]bool{}, jsonToks: map[int]*jsonTok{},
	}
	return it
}

// ---------- registers / operands ----------

func (it *Interp) get(fr *Frame, v ssa.Value) Value {
	switch x := v.(type) {
	case *ssa.Const:
		return it.constValue(x)
	case *ssa.Global:
		return it.globalAddr(x)
	case *ssa.Function:
		return &Closure{Fn: x}
	case *ssa.Builtin:
		return &Closure{Bi: x}
	}
	i, ok := fr.info.idx[v]
	if !ok {
		panic(unsupported("no register for %T %v in %s", v, v, fr.fn))
	}
	return fr.regs[i]
}

func (it *Interp) set(fr *Frame, v ssa.Value, val Value) {
	fr.regs[fr.info.idx[v]] = val
}

func (it *Interp) constValue(c *ssa.Const) Value {
	t := c.Type()
	if c.Value == nil {
		return zero(t)
	}
	if tp, ok := t.(*types.TypeParam); ok {
		_ = tp
		panic(unsupported("constant of type parameter type"))
	}
	b, ok := t.Underlying().(*types.Basic)
	if !ok {
		panic(unsupported("const of non-basic type %v", t))
	}
	if w, s, ok := intInfo(b); ok {
		if s {
			i, _ := constant.Int64Val(constant.ToInt(c.Value))
			return mkInt(uint64(i), w, true)
		}
		u, _ := constant.Uint64Val(constant.ToInt(c.Value))
		return mkInt(u, w, false)
	}
	switch b.Kind() {
	case types.Bool, types.UntypedBool:
		return BoolV{C: constant.BoolVal(c.Value)}
	case types.String, types.UntypedString:
		if c.Value.Kind() == constant.String {
			return constant.StringVal(c.Value)
		}
		i, _ := constant.Int64Val(c.Value)
		return string(rune(i))
	case types.Float32, types.Float64, types.UntypedFloat:
		f, _ := constant.Float64Val(c.Value)
		return f
	case types.Complex64, types.Complex128:
		re, _ := constant.Float64Val(constant.Real(c.Value))
		im, _ := constant.Float64Val(constant.Imag(c.Value))
		return complex(re, im)
	}
	panic(unsupported("const kind %v", b))
}

// ---------- globals and package init ----------

// initDeny lists packages whose initialisers are never run; their globals read as zero values.
var initAllowStd = map[string]bool{
	"errors": true, "io": true, "io/fs": true, "context": false,
}

func (it *Interp) shouldInit(pkg *ssa.Package) bool {
	path := pkg.Pkg.Path()
	if strings.HasPrefix(path, it.P.RepoModule) {
		// the cosmos, html and cli trees are never interpreted
		return true
	}
	if v, ok := initAllowStd[path]; ok {
		return v
	}
	if strings.HasPrefix(path, "github.com/Azure/retry") {
		return true
	}
	switch path {
	case "github.com/Azure/retry/exponential", "github.com/gostdlib/base/retry/exponential",
		"github.com/gostdlib/base/statemachine", "github.com/google/uuid",
		"github.com/gostdlib/base/context", "github.com/gostdlib/base/concurrency/sync":
		return true
	}
	return false
}

func (it *Interp) globalAddr(g *ssa.Global) *Value {
	if a, ok := it.globals[g]; ok {
		return a
	}
	pkg := g.Pkg
	if pkg != nil && !it.inited[pkg] && it.shouldInit(pkg) {
		it.runInit(pkg)
		if a, ok := it.globals[g]; ok {
			return a
		}
	}
	a := new(Value)
	*a = zero(g.Type().(*types.Pointer).Elem())
	it.globals[g] = a
	return a
}

// runInit runs the package initialiser synchronously on the current goroutine.
func (it *Interp) runInit(pkg *ssa.Package) {
	if it.inited[pkg] {
		return
	}
	it.inited[pkg] = true
	fn := pkg.Func("init")
	if fn == nil || len(fn.Blocks) == 0 {
		return
	}
	it.initDepth++
	defer func() { it.initDepth-- }()
	it.callSync(&Closure{Fn: fn}, nil)
}

// ---------- frames and calls ----------

func (it *Interp) newFrame(fn *ssa.Function, args []Value, env []Value) *Frame {
	if len(fn.Blocks) == 0 {
		panic(unsupported("call to function without body: %s", fn))
	}
	fi := it.P.info(fn)
	fr := &Frame{fn: fn, info: fi, regs: make([]Value, fi.n), block: fn.Blocks[0]}
	if len(args) != len(fn.Params) {
		panic(unsupported("arity mismatch calling %s: %d args, %d params", fn, len(args), len(fn.Params)))
	}
	for i, p := range fn.Params {
		fr.regs[fi.idx[p]] = args[i]
	}
	for i, fv := range fn.FreeVars {
		fr.regs[fi.idx[fv]] = env[i]
	}
	if !it.fnsSeen[fi.name] {
		it.fnsSeen[fi.name] = true
	}
	return fr
}

// callSync runs fn(args) to completion on the current goroutine without yielding to the scheduler.
// Used by intrinsics that need a callback (Error(), String(), package init).
func (it *Interp) callSync(fn Value, args []Value) Value {
	g := it.cur
	if g == nil {
		g = &G{id: len(it.gs), name: "init"}
		it.gs = append(it.gs, g)
		it.cur = g
	}
	cl, ok := fn.(*Closure)
	if !ok || cl == nil {
		panic(unsupported("callSync on %T", fn))
	}
	if cl.Fn == nil {
		panic(unsupported("callSync on builtin/intrinsic closure"))
	}
	if h, name := it.lookupIntercept(cl.Fn); h != nil {
		it.stubsSeen[name] = true
		res, st := h(it, g, nil, args, nil)
		if st != stOK {
			panic(unsupported("intrinsic %s blocked inside a synchronous call", name))
		}
		return res
	}
	if m := it.lookupModel(cl.Fn); m != nil {
		cl = &Closure{Fn: m}
	}
	fr := it.newFrame(cl.Fn, args, cl.Env)
	fr.syncStop = true
	fr.discard = true
	depth := len(g.stack)
	g.stack = append(g.stack, fr)
	g.syncDepth++
	for len(g.stack) > depth {
		it.step(g)
		if g.wait != nil {
			panic(unsupported("goroutine blocked (%s) inside a synchronous call of %s", g.waitOn, cl.Fn))
		}
	}
	g.syncDepth--
	return fr.result
}

type status int

const (
	stOK status = iota
	stBlock
	stPushed // a frame was pushed; result arrives later
)

// Intrinsic implements a function inside the interpreter.
// call may be nil (synchronous call / deferred call).
type Intrinsic func(it *Interp, g *G, fr *Frame, args []Value, call *ssa.CallCommon) (Value, status)

func calleeName(fn *ssa.Function) string {
	if o := fn.Origin(); o != nil {
		return o.String()
	}
	return fn.String()
}

func (it *Interp) lookupIntercept(fn *ssa.Function) (Intrinsic, string) {
	name := calleeName(fn)
	if h, ok := intrinsics[name]; ok {
		return h, name
	}
	return nil, name
}

func (it *Interp) lookupModel(fn *ssa.Function) *ssa.Function {
	name := calleeName(fn)
	mname, ok := modelTable[name]
	if !ok {
		return nil
	}
	mp := it.P.Pkgs[it.P.RepoModule+"/internal/zzverif/models"]
	if mp == nil {
		panic(unsupported("models package not loaded (needed for %s)", name))
	}
	m := mp.Func(mname)
	if m == nil {
		panic(unsupported("model function %s not found", mname))
	}
	it.stubsSeen["model:"+name] = true
	return m
}

// invoke performs a call described by cc in frame fr. dst is the register receiving the result (nil: discard).
// Returns stBlock if the goroutine must wait (instruction is retried), stPushed if a frame was pushed.
func (it *Interp) doCall(g *G, fr *Frame, cc *ssa.CallCommon, dst ssa.Value) status {
	var fnv Value
	var args []Value
	if cc.IsInvoke() {
		recv := it.get(fr, cc.Value)
		ifc, ok := recv.(Iface)
		if !ok {
			panic(unsupported("invoke on non-interface %T", recv))
		}
		if ifc.T == nil {
			if it.initDepth > 0 {
				// opaque object returned by an unmodelled call inside a package initialiser
				if dst != nil {
					it.set(fr, dst, zeroResult(cc))
				}
				return stOK
			}
			it.fault("panic", "nil-deref", fmt.Sprintf("method %s called on nil interface", cc.Method.Name()), fr)
		}
		if nat, ok := ifc.V.(*Native); ok && nat != nil {
			name := "native:" + nat.Kind + "." + cc.Method.Name()
			h, ok := intrinsics[name]
			if !ok {
				panic(unsupported("no intrinsic %s", name))
			}
			args = append(args, nat)
			for _, a := range cc.Args {
				args = append(args, it.get(fr, a))
			}
			it.stubsSeen[name] = true
			res, st := h(it, g, fr, args, cc)
			if st == stOK && dst != nil {
				it.set(fr, dst, res)
			}
			return st
		}
		m := it.P.Prog.LookupMethod(ifc.T, cc.Method.Pkg(), cc.Method.Name())
		if m == nil {
			panic(unsupported("method %s not found on %v", cc.Method.Name(), ifc.T))
		}
		fnv = &Closure{Fn: m}
		args = append(args, ifc.V)
	} else {
		fnv = it.get(fr, cc.Value)
	}
	for _, a := range cc.Args {
		args = append(args, it.get(fr, a))
	}
	return it.callValue(g, fr, fnv, args, cc, dst)
}

func (it *Interp) callValue(g *G, fr *Frame, fnv Value, args []Value, cc *ssa.CallCommon, dst ssa.Value) status {
	cl, ok := fnv.(*Closure)
	if !ok {
		panic(unsupported("call of %T", fnv))
	}
	if cl == nil {
		it.fault("panic", "nil-func", "call of nil function", fr)
	}
	if cl.Bi != nil {
		res := it.builtin(g, fr, cl.Bi, args, cc)
		if dst != nil {
			it.set(fr, dst, res)
		}
		return stOK
	}
	if cl.Intr != "" {
		h := intrinsics[cl.Intr]
		all := append(append([]Value{}, cl.IntrA...), args...)
		res, st := h(it, g, fr, all, cc)
		if st == stOK && dst != nil {
			it.set(fr, dst, res)
		}
		return st
	}
	fn := cl.Fn
	if h, name := it.lookupIntercept(fn); h != nil {
		it.stubsSeen[name] = true
		res, st := it.callIntrinsic(h, g, fr, args, cc)
		if st == stOK && dst != nil {
			it.set(fr, dst, res)
		}
		return st
	}
	env := cl.Env
	if m := it.lookupModel(fn); m != nil {
		fn = m
		env = nil
	}
	if len(fn.Blocks) == 0 {
		// try to build lazily (dependency packages)
		if fn.Pkg != nil {
			it.P.mu.Lock()
			fn.Pkg.Build()
			it.P.mu.Unlock()
		}
		if len(fn.Blocks) == 0 {
			if it.initDepth > 0 {
				it.stubsSeen["init-opaque:"+calleeName(fn)] = true
				if dst != nil {
					it.set(fr, dst, zeroResult(cc))
				}
				return stOK
			}
			panic(unsupported("call to external function %s", calleeName(fn)))
		}
	}
	if it.initDepth > 0 && fn.Name() == "init" && fn.Pkg != nil && fn.Signature.Recv() == nil && fn.Parent() == nil {
		// package initialiser calling an imported package's initialiser
		if !it.shouldInit(fn.Pkg) || it.inited[fn.Pkg] {
			if dst != nil {
				it.set(fr, dst, nil)
			}
			return stOK
		}
		it.inited[fn.Pkg] = true
	}
	nf := it.newFrame(fn, args, env)
	nf.retTo = dst
	nf.discard = dst == nil
	g.stack = append(g.stack, nf)
	return stPushed
}

// ---------- faults ----------

func (it *Interp) where(fr *Frame) string {
	if fr == nil {
		return ""
	}
	pos := token.NoPos
	if fr.block != nil && fr.pc < len(fr.block.Instrs) {
		pos = fr.block.Instrs[fr.pc].Pos()
	}
	s := fr.fn.String()
	if pos.IsValid() {
		p := it.P.Fset.Position(pos)
		s += fmt.Sprintf(" (%s:%d)", shortFile(p.Filename), p.Line)
	}
	return s
}

func shortFile(f string) string {
	if i := strings.Index(f, "/repo/"); i >= 0 {
		return f[i+6:]
	}
	if i := strings.LastIndex(f, "/pkg/mod/"); i >= 0 {
		return f[i+9:]
	}
	return f
}

func (it *Interp) stackString(g *G) string {
	var sb strings.Builder
	for i := len(g.stack) - 1; i >= 0 && i >= len(g.stack)-8; i-- {
		sb.WriteString(it.where(g.stack[i]))
		sb.WriteString(" <- ")
	}
	return sb.String()
}

// fault records a violation found on this path (panic, deadlock, fatal) and ends the path.
func (it *Interp) fault(kind, label, msg string, fr *Frame) {
	where := ""
	if fr != nil {
		where = it.where(fr)
	}
	// attribute the fault to the innermost repo (non-harness) function on the stack
	site := ""
	if it.cur != nil {
		for i := len(it.cur.stack) - 1; i >= 0; i-- {
			f := it.cur.stack[i].fn
			n := f.String()
			if strings.Contains(n, it.P.RepoModule) && !strings.Contains(n, "zzverif") && !strings.Contains(n, "Verif") && !strings.Contains(n, ".vh") {
				site = n
				break
			}
		}
	}
	v := &Violation{Kind: kind, Label: label, Msg: msg, Where: where}
	if site != "" {
		v.Facts = map[string]string{"site": site}
	}
	if it.cur != nil {
		v.Msg += " | stack: " + it.stackString(it.cur)
	}
	it.recordViolation(v, nil)
	panic(pathEnd{Kind: "fault", Label: label, Msg: msg})
}

func (it *Interp) recordViolation(v *Violation, model map[string]uint64) {
	if model == nil {
		// path condition is satisfiable by construction: fetch a model
		res, m := it.modelOf(nil)
		if res == smt.Sat {
			model = m
		}
	}
	v.Model = map[string]int64{}
	for _, x := range it.vars {
		if val, ok := model[x.Name]; ok {
			if x.Sort == 0 {
				v.Model[x.Name] = int64(val)
			} else if x.Sort < 64 {
				sh := uint(64 - x.Sort)
				v.Model[x.Name] = int64(val<<sh) >> sh
			} else {
				v.Model[x.Name] = int64(val)
			}
		}
	}
	v.Decisions = append([]int64{}, it.taken...)
	v.Races = it.races
	if v.Facts == nil {
		v.Facts = map[string]string{}
	}
	for k, f := range it.facts {
		v.Facts[k] = f
	}
	tr := it.trace
	if len(tr) > 200 {
		tr = tr[len(tr)-200:]
	}
	v.Trace = append([]string{}, tr...)
	v.Harness = it.Cfg.Harness
	v.Choices = map[string]int64{}
	for k, c := range it.choices {
		v.Choices[k] = c
	}
	it.violations = append(it.violations, v)
}

// ---------- decisions ----------

// decide takes one of n alternatives. feasible(i) adds nothing; it only reports whether alternative i is possible.
// kind is recorded for evidence. Returns the chosen alternative.
func (it *Interp) decide(kind string, alts []int64, feasible func(i int) bool) int64 {
	pos := len(it.taken)
	if pos < len(it.prefix) {
		v := it.prefix[pos]
		it.taken = append(it.taken, v)
		it.kinds = append(it.kinds, kind)
		return v
	}
	var ok []int64
	for i, a := range alts {
		if feasible == nil || feasible(i) {
			ok = append(ok, a)
		}
	}
	if len(ok) == 0 {
		panic(pathEnd{Kind: "drop", Label: "no-feasible-alternative", Msg: kind})
	}
	for _, a := range ok[1:] {
		w := make([]int64, pos+1)
		copy(w, it.taken)
		w[pos] = a
		it.newWork = append(it.newWork, w)
	}
	it.taken = append(it.taken, ok[0])
	it.kinds = append(it.kinds, kind)
	return ok[0]
}

// branch resolves a possibly symbolic boolean into a concrete one, forking the path when both sides are feasible.
func (it *Interp) branch(b BoolV) bool {
	if b.T == nil {
		return b.C
	}
	pos := len(it.taken)
	if pos < len(it.prefix) {
		v := it.prefix[pos]
		it.taken = append(it.taken, v)
		it.kinds = append(it.kinds, "br")
		if v == 1 {
			it.addPC(b.T)
		} else {
			it.addPC(smt.Not(b.T))
		}
		return v == 1
	}
	v := it.decide("br", []int64{1, 0}, func(i int) bool {
		if i == 0 {
			return it.feasible(b.T)
		}
		return it.feasible(smt.Not(b.T))
	})
	if v == 1 {
		it.addPC(b.T)
	} else {
		it.addPC(smt.Not(b.T))
	}
	return v == 1
}

// concretize resolves a symbolic integer into one of its feasible concrete values (at most limit).
func (it *Interp) concretize(v IntV, what string, limit int) IntV {
	if v.T == nil {
		return v
	}
	pos := len(it.taken)
	if pos < len(it.prefix) {
		c := it.prefix[pos]
		it.taken = append(it.taken, c)
		it.kinds = append(it.kinds, "conc")
		it.addPC(smt.Eq(v.T, smt.Const(uint64(c), int(v.W))))
		return mkInt(uint64(c), int(v.W), v.S)
	}
	// enumerate feasible values
	var vals []int64
	excl := smt.True
	for len(vals) <= limit {
		val, res := it.evalTerm(excl, v.T)
		if res == smt.Unsat {
			break
		}
		if res == smt.Unknown {
			panic(pathEnd{Kind: "unsupported", Label: "solver-unknown", Msg: "concretize " + what})
		}
		if v.S {
			vals = append(vals, mkInt(val, int(v.W), true).Int64())
		} else {
			vals = append(vals, int64(val))
		}
		excl = smt.And(excl, smt.Not(smt.Eq(v.T, smt.Const(val, int(v.W)))))
	}
	if len(vals) > limit {
		panic(pathEnd{Kind: "truncated", Label: "concretize-limit", Msg: fmt.Sprintf("%s has more than %d feasible values", what, limit)})
	}
	if len(vals) == 0 {
		panic(pathEnd{Kind: "drop", Label: "infeasible", Msg: what})
	}
	c := it.decide("conc", vals, nil)
	it.addPC(smt.Eq(v.T, smt.Const(uint64(c), int(v.W))))
	return mkInt(uint64(c), int(v.W), v.S)
}

// evalTerm returns the value of t in some model of pc AND extra.
func (it *Interp) evalTerm(extra *smt.Term, t *smt.Term) (uint64, smt.Result) {
	if it.evalAlias == nil {
		it.evalAlias = map[int64]*smt.Term{}
	}
	alias := it.evalAlias[t.ID]
	if alias == nil {
		alias = smt.Var(fmt.Sprintf("__eval%d", t.ID), t.Sort)
		it.evalAlias[t.ID] = alias
	}
	q := smt.And(extra, smt.Eq(alias, t))
	res, m, err := it.Solver.Check(q, it.sliceFor(q), []*smt.Term{alias})
	if err != nil {
		panic(pathEnd{Kind: "unsupported", Label: "solver", Msg: err.Error()})
	}
	if res != smt.Sat {
		return 0, res
	}
	return m[alias.Name], smt.Sat
}

// ---------- main loop ----------

type PathResult struct {
	End                 pathEnd
	Violations          []*Violation
	NewWork             [][]int64
	Taken               []int64
	Kinds               []string
	Steps               int
	Reached             map[string]bool
	Fns                 map[string]bool
	Stubs               map[string]bool
	Bounds              map[string]int
	BranchQ             int
	UnknownBr           int
	Trace               []string
	Facts               map[string]string
	PCSize              int
	Vars                int
	SampleModel         map[string]int64
	Asserts, AssertQ    int
	Cross, CrossUnknown int
}

// Run executes the harness function along the decision prefix.
func (it *Interp) Run(entry *ssa.Function) (res *PathResult) {
	res = &PathResult{}
	it.Solver.Reset()
	if it.Solver2 != nil {
		it.Solver2.Reset()
	}
	defer func() {
		r := recover()
		if r == nil || isPathEnd(r, "cut", "fault", "truncated", "done") {
			// discharge queued assertions under the path condition reached (also on cut/fault/truncated paths)
			func() {
				defer func() {
					if r2 := recover(); r2 != nil && r == nil {
						r = r2
					} else if r2 != nil {
						if pe2, ok := r2.(pathEnd); ok && pe2.Kind == "unsupported" {
							r = r2
						}
					}
				}()
				it.flushAsserts()
			}()
		}
		if r != nil {
			pe, ok := r.(pathEnd)
			if !ok {
				// interpreter bug: report as unsupported with the Go panic text
				pe = pathEnd{Kind: "unsupported", Label: "interp-panic", Msg: fmt.Sprintf("%v @ %s", r, it.curWhere())}
			} else if pe.Kind == "unsupported" && !strings.Contains(pe.Msg, " @ ") {
				pe.Msg += " @ " + it.curWhere()
			}
			res.End = pe
		}
		res.Violations = it.violations
		res.NewWork = it.newWork
		res.Taken = it.taken
		res.Kinds = it.kinds
		res.Steps = it.steps
		res.Reached = it.reached
		res.Fns = it.fnsSeen
		res.Stubs = it.stubsSeen
		res.Bounds = it.boundsUsed
		res.BranchQ = it.nBranchQ
		res.UnknownBr = it.unknownBranches
		res.Trace = it.trace
		res.Facts = it.facts
		res.PCSize = len(it.pc)
		res.Vars = len(it.vars)
		res.Asserts, res.AssertQ = it.nAsserts, it.nAssertQ
		res.Cross, res.CrossUnknown = it.nCross, it.crossUnknown
	}()
	main := &G{id: 0, name: "main"}
	it.gs = append(it.gs, main)
	it.cur = main
	// run the harness package's init first (repo package => allowed)
	if entry.Pkg != nil {
		it.runInit(entry.Pkg)
	}
	fr := it.newFrame(entry, nil, nil)
	fr.discard = true
	main.stack = append(main.stack, fr)
	it.loop()
	res.End = pathEnd{Kind: "done"}
	return res
}

func (it *Interp) curWhere() string {
	if it.cur != nil && len(it.cur.stack) > 0 {
		return it.stackString(it.cur)
	}
	return "?"
}

func (it *Interp) loop() {
	for {
		g := it.cur
		if g == nil || g.done || g.wait != nil {
			if !it.schedule() {
				return
			}
			continue
		}
		if it.mainDone && !it.quiescing {
			return
		}
		it.step(g)
	}
}

func (it *Interp) step(g *G) {
	it.steps++
	if it.steps > it.Cfg.MaxSteps {
		panic(pathEnd{Kind: "truncated", Label: "step-budget", Msg: fmt.Sprintf("more than %d instructions on one path", it.Cfg.MaxSteps)})
	}
	fr := g.stack[len(g.stack)-1]
	ins := fr.block.Instrs[fr.pc]
	pc0, b0, d0 := fr.pc, fr.block, len(g.stack)
	it.exec(g, fr, ins)
	if it.cur == g && g.wait == nil && (fr.pc != pc0 || fr.block != b0 || len(g.stack) != d0) {
		g.atSwitch = false
	}
}

// finishFrame pops the top frame and delivers its result.
func (it *Interp) finishFrame(g *G, fr *Frame, result Value) {
	g.stack = g.stack[:len(g.stack)-1]
	fr.result = result
	if fr.syncStop {
		return
	}
	if len(g.stack) == 0 {
		g.done = true
		if g.id == 0 {
			it.mainDone = true
		}
		return
	}
	caller := g.stack[len(g.stack)-1]
	if fr.fromRunDefers {
		// stay on the RunDefers / panic-unwinding instruction
		return
	}
	if fr.retTo != nil {
		it.set(caller, fr.retTo, result)
	}
	caller.pc++
}

var _ = sort.Ints

func zeroResult(cc *ssa.CallCommon) Value {
	res := cc.Signature().Results()
	switch res.Len() {
	case 0:
		return nil
	case 1:
		return zero(res.At(0).Type())
	}
	return zero(res)
}

func isPathEnd(r any, kinds ...string) bool {
	pe, ok := r.(pathEnd)
	if !ok {
		return false
	}
	for _, k := range kinds {
		if pe.Kind == k {
			return true
		}
	}
	return false
}

// callIntrinsic runs an intrinsic and turns a nil-statement use into the panic the real library would raise.
func (it *Interp) callIntrinsic(h Intrinsic, g *G, fr *Frame, args []Value, cc *ssa.CallCommon) (res Value, st status) {
	defer func() {
		if r := recover(); r != nil {
			if _, ok := r.(nilStmtUse); ok {
				it.fault("panic", "nil-deref", "method called on a nil *sqlite.Stmt (Prepare failed and its error was ignored)", fr)
			}
			panic(r)
		}
	}()
	return h(it, g, fr, args, cc)
}
