package sx

import (
	"fmt"
	"go/token"
	"go/types"
	"math"
	"strconv"
	"strings"

	"gosx/smt"
)

func (it *Interp) binop(fr *Frame, op token.Token, xt types.Type, a, b Value, rt types.Type) Value {
	switch x := a.(type) {
	case IntV:
		y, ok := b.(IntV)
		if !ok {
			panic(unsupported("binop %v int with %T", op, b))
		}
		return it.intBinop(fr, op, x, y)
	case BoolV:
		y := b.(BoolV)
		switch op {
		case token.EQL:
			return boolFromTerm(smt.Eq(x.Term(), y.Term()))
		case token.NEQ:
			return boolFromTerm(smt.Not(smt.Eq(x.Term(), y.Term())))
		case token.AND, token.LAND:
			return boolFromTerm(smt.And(x.Term(), y.Term()))
		case token.OR, token.LOR:
			return boolFromTerm(smt.Or(x.Term(), y.Term()))
		}
	case string:
		y := b.(string)
		switch op {
		case token.ADD:
			return x + y
		}
		if strings.Contains(x, symMarker) || strings.Contains(y, symMarker) {
			panic(unsupported("comparison of a string built from symbolic values"))
		}
		switch op {
		case token.EQL:
			return BoolV{C: x == y}
		case token.NEQ:
			return BoolV{C: x != y}
		case token.LSS:
			return BoolV{C: x < y}
		case token.LEQ:
			return BoolV{C: x <= y}
		case token.GTR:
			return BoolV{C: x > y}
		case token.GEQ:
			return BoolV{C: x >= y}
		}
	case float64:
		switch y := b.(type) {
		case float64:
			switch op {
			case token.ADD:
				return x + y
			case token.SUB:
				return x - y
			case token.MUL:
				return x * y
			case token.QUO:
				return x / y
			case token.EQL:
				return BoolV{C: x == y}
			case token.NEQ:
				return BoolV{C: x != y}
			case token.LSS:
				return BoolV{C: x < y}
			case token.LEQ:
				return BoolV{C: x <= y}
			case token.GTR:
				return BoolV{C: x > y}
			case token.GEQ:
				return BoolV{C: x >= y}
			}
		case FloatHavoc:
			return it.havocFloatOp(op)
		}
	case FloatHavoc:
		return it.havocFloatOp(op)
	}
	switch op {
	case token.EQL:
		return boolFromTerm(it.equal(a, b))
	case token.NEQ:
		return boolFromTerm(smt.Not(it.equal(a, b)))
	}
	panic(unsupported("binop %v on %T, %T", op, a, b))
}

func (it *Interp) havocFloatOp(op token.Token) Value {
	switch op {
	case token.EQL, token.NEQ, token.LSS, token.LEQ, token.GTR, token.GEQ:
		it.floatBranches++
		return BoolV{T: it.freshVar("float_cmp", 0)}
	}
	return FloatHavoc{}
}

func (it *Interp) freshVar(name string, w int) *smt.Term {
	n := it.varSeq[name]
	it.varSeq[name] = n + 1
	full := name
	if n > 0 {
		full = fmt.Sprintf("%s#%d", name, n)
	}
	v := smt.Var(full, w)
	it.vars = append(it.vars, v)
	return v
}

func (it *Interp) intBinop(fr *Frame, op token.Token, x, y IntV) Value {
	w := int(x.W)
	signed := x.S
	// shifts: y may have a different width/signedness
	if op == token.SHL || op == token.SHR {
		if y.T == nil && x.T == nil {
			sh := y.C
			if y.S && y.Int64() < 0 {
				it.fault("panic", "negative-shift", "negative shift amount", fr)
			}
			if op == token.SHL {
				if sh >= uint64(w) {
					return mkInt(0, w, signed)
				}
				return mkInt(x.C<<sh, w, signed)
			}
			if signed {
				if sh >= uint64(w) {
					sh = uint64(w - 1)
				}
				return mkInt(uint64(x.Int64()>>sh), w, signed)
			}
			if sh >= uint64(w) {
				return mkInt(0, w, signed)
			}
			return mkInt(x.C>>sh, w, signed)
		}
		yt := smt.Resize(y.Term(), w, false)
		if int(y.W) > w {
			// large shift counts saturate
			big := smt.Cmp("bvuge", y.Term(), smt.Const(uint64(w), int(y.W)))
			yt = smt.Ite(big, smt.Const(uint64(w), w), yt)
		}
		if y.S {
			neg := smt.Cmp("bvslt", y.Term(), smt.Const(0, int(y.W)))
			if it.branch(boolFromTerm(neg)) {
				it.fault("panic", "negative-shift", "negative shift amount", fr)
			}
		}
		switch {
		case op == token.SHL:
			return intFromTerm(smt.Bin("bvshl", x.Term(), yt), signed)
		case signed:
			return intFromTerm(smt.Bin("bvashr", x.Term(), yt), signed)
		default:
			return intFromTerm(smt.Bin("bvlshr", x.Term(), yt), signed)
		}
	}
	if x.W != y.W {
		panic(unsupported("int binop %v width mismatch %d vs %d", op, x.W, y.W))
	}
	xt, yt := x.Term(), y.Term()
	cmp := func(s, u string) Value {
		if signed {
			return boolFromTerm(smt.Cmp(s, xt, yt))
		}
		return boolFromTerm(smt.Cmp(u, xt, yt))
	}
	switch op {
	case token.ADD:
		return intFromTerm(smt.Bin("bvadd", xt, yt), signed)
	case token.SUB:
		return intFromTerm(smt.Bin("bvsub", xt, yt), signed)
	case token.MUL:
		return intFromTerm(smt.Bin("bvmul", xt, yt), signed)
	case token.QUO, token.REM:
		zc := boolFromTerm(smt.Eq(yt, smt.Const(0, w)))
		if it.branch(zc) {
			it.fault("panic", "divide-by-zero", "integer divide by zero", fr)
		}
		var o string
		switch {
		case op == token.QUO && signed:
			o = "bvsdiv"
		case op == token.QUO:
			o = "bvudiv"
		case signed:
			o = "bvsrem"
		default:
			o = "bvurem"
		}
		return intFromTerm(smt.Bin(o, xt, yt), signed)
	case token.AND:
		return intFromTerm(smt.Bin("bvand", xt, yt), signed)
	case token.OR:
		return intFromTerm(smt.Bin("bvor", xt, yt), signed)
	case token.XOR:
		return intFromTerm(smt.Bin("bvxor", xt, yt), signed)
	case token.AND_NOT:
		return intFromTerm(smt.Bin("bvand", xt, smt.BvNot(yt)), signed)
	case token.EQL:
		return boolFromTerm(smt.Eq(xt, yt))
	case token.NEQ:
		return boolFromTerm(smt.Not(smt.Eq(xt, yt)))
	case token.LSS:
		return cmp("bvslt", "bvult")
	case token.LEQ:
		return cmp("bvsle", "bvule")
	case token.GTR:
		return cmp("bvsgt", "bvugt")
	case token.GEQ:
		return cmp("bvsge", "bvuge")
	}
	panic(unsupported("int binop %v", op))
}

// equal returns the term for a == b (Go semantics; non-comparable dynamic types compare unequal).
func (it *Interp) equal(a, b Value) *smt.Term {
	switch x := a.(type) {
	case nil:
		return smt.Bool(isNilValue(b))
	case IntV:
		y, ok := b.(IntV)
		if !ok || x.W != y.W {
			return smt.False
		}
		return smt.Eq(x.Term(), y.Term())
	case BoolV:
		y, ok := b.(BoolV)
		if !ok {
			return smt.False
		}
		return smt.Eq(x.Term(), y.Term())
	case string:
		y, ok := b.(string)
		if !ok {
			return smt.False
		}
		if strings.Contains(x, symMarker) || strings.Contains(y, symMarker) {
			panic(unsupported("comparison of a string built from symbolic values"))
		}
		return smt.Bool(x == y)
	case float64:
		y, ok := b.(float64)
		return smt.Bool(ok && x == y)
	case TimeV:
		y, ok := b.(TimeV)
		if !ok {
			return smt.False
		}
		return smt.Eq(x.NS.Term(), y.NS.Term())
	case *Value:
		y, ok := b.(*Value)
		if !ok {
			return smt.Bool(x == nil && isNilValue(b))
		}
		return smt.Bool(x == y)
	case *MapV:
		y, ok := b.(*MapV)
		if !ok {
			return smt.Bool(x == nil && isNilValue(b))
		}
		return smt.Bool(x == y)
	case *Chan:
		y, ok := b.(*Chan)
		if !ok {
			return smt.Bool(x == nil && isNilValue(b))
		}
		return smt.Bool(x == y)
	case *Closure:
		y, ok := b.(*Closure)
		if !ok {
			return smt.Bool(x == nil && isNilValue(b))
		}
		return smt.Bool(x == nil && y == nil)
	case *Native:
		y, ok := b.(*Native)
		return smt.Bool(ok && x == y)
	case SliceV:
		// only comparison with nil is legal
		return smt.Bool(x.Nil && isNilValue(b))
	case StructV:
		y, ok := b.(StructV)
		if !ok || len(x) != len(y) {
			return smt.False
		}
		r := smt.True
		for i := range x {
			r = smt.And(r, it.equal(x[i], y[i]))
		}
		return r
	case ArrayV:
		y, ok := b.(ArrayV)
		if !ok || len(x) != len(y) {
			return smt.False
		}
		r := smt.True
		for i := range x {
			r = smt.And(r, it.equal(x[i], y[i]))
		}
		return r
	case Iface:
		y, ok := b.(Iface)
		if !ok {
			return smt.Bool(x.T == nil && isNilValue(b))
		}
		if x.T == nil || y.T == nil {
			return smt.Bool(x.T == nil && y.T == nil)
		}
		if !types.Identical(x.T, y.T) {
			return smt.False
		}
		return it.equal(x.V, y.V)
	}
	panic(unsupported("equality on %T", a))
}

func (it *Interp) convert(fr *Frame, from, to types.Type, v Value) Value {
	ut := to.Underlying()
	uf := from.Underlying()
	if tp, ok := ut.(*types.TypeParam); ok {
		_ = tp
		panic(unsupported("convert to type parameter"))
	}
	switch x := v.(type) {
	case IntV:
		if w, s, ok := intInfo(ut); ok {
			if x.T == nil {
				if x.S {
					return mkInt(uint64(x.Int64()), w, s)
				}
				return mkInt(x.C, w, s)
			}
			return intFromTerm(smt.Resize(x.T, w, x.S), s)
		}
		if b, ok := ut.(*types.Basic); ok {
			switch b.Kind() {
			case types.Float32, types.Float64:
				if x.T != nil {
					return FloatHavoc{}
				}
				if x.S {
					return float64(x.Int64())
				}
				return float64(x.C)
			case types.String:
				c := it.concretize(x, "int->string", 4)
				return string(rune(c.Int64()))
			case types.UnsafePointer:
				panic(unsupported("int -> unsafe.Pointer"))
			}
		}
	case float64:
		if w, s, ok := intInfo(ut); ok {
			if s {
				return mkInt(uint64(int64(x)), w, s)
			}
			return mkInt(uint64(x), w, s)
		}
		if b, ok := ut.(*types.Basic); ok && (b.Kind() == types.Float64 || b.Kind() == types.Float32) {
			if b.Kind() == types.Float32 {
				return float64(float32(x))
			}
			return x
		}
	case FloatHavoc:
		if w, s, ok := intInfo(ut); ok {
			return intFromTerm(it.freshVar("float_to_int", w), s)
		}
		return x
	case string:
		if sl, ok := ut.(*types.Slice); ok {
			eb := sl.Elem().Underlying().(*types.Basic)
			if eb.Kind() == types.Uint8 {
				out := make([]Value, len(x))
				for i := 0; i < len(x); i++ {
					out[i] = mkInt(uint64(x[i]), 8, false)
				}
				return SliceV{S: out}
			}
			if eb.Kind() == types.Int32 {
				var out []Value
				for _, r := range x {
					out = append(out, mkInt(uint64(r), 32, true))
				}
				return SliceV{S: out}
			}
		}
		if b, ok := ut.(*types.Basic); ok && b.Kind() == types.String {
			return x
		}
	case SliceV:
		if b, ok := ut.(*types.Basic); ok && b.Kind() == types.String {
			eb := uf.(*types.Slice).Elem().Underlying().(*types.Basic)
			if eb.Kind() == types.Uint8 {
				bs := make([]byte, len(x.S))
				for i, e := range x.S {
					c := it.concretize(e.(IntV), "[]byte->string", 4)
					bs[i] = byte(c.C)
				}
				return string(bs)
			}
			var rs []rune
			for _, e := range x.S {
				c := it.concretize(e.(IntV), "[]rune->string", 4)
				rs = append(rs, rune(c.Int64()))
			}
			return string(rs)
		}
		if _, ok := ut.(*types.Slice); ok {
			return x
		}
		if _, ok := ut.(*types.Array); ok { // slice to array conversion
			n := int(ut.(*types.Array).Len())
			if len(x.S) < n {
				it.fault("panic", "slice-to-array", "slice too short", fr)
			}
			out := make(ArrayV, n)
			for i := range out {
				out[i] = copyVal(x.S[i])
			}
			return out
		}
	case *Value:
		// pointer <-> unsafe.Pointer, pointer to pointer
		return x
	}
	// same underlying representation
	if types.Identical(ut, uf) {
		return v
	}
	panic(unsupported("convert %v -> %v (%T)", from, to, v))
}

// render formats a value for messages (fmt verbs %v/%s/%d). Symbolic parts become the opaque marker.
func (it *Interp) render(v Value, t types.Type) string {
	switch x := v.(type) {
	case nil:
		return "<nil>"
	case IntV:
		if x.T != nil {
			return symMarker
		}
		if x.S {
			return strconv.FormatInt(x.Int64(), 10)
		}
		return strconv.FormatUint(x.C, 10)
	case BoolV:
		if x.T != nil {
			return symMarker
		}
		return strconv.FormatBool(x.C)
	case string:
		return x
	case float64:
		if x == math.Trunc(x) && math.Abs(x) < 1e15 {
			return strconv.FormatFloat(x, 'g', -1, 64)
		}
		return strconv.FormatFloat(x, 'g', -1, 64)
	case FloatHavoc:
		return symMarker
	case TimeV:
		if x.NS.T != nil {
			return symMarker
		}
		return fmt.Sprintf("time(%d)", x.NS.Int64())
	case Iface:
		if x.T == nil {
			return "<nil>"
		}
		return it.renderTyped(x.V, x.T)
	case *Value:
		if x == nil {
			return "<nil>"
		}
		return fmt.Sprintf("%p", x)
	case StructV:
		parts := make([]string, len(x))
		for i, f := range x {
			parts[i] = it.render(f, nil)
		}
		return "{" + strings.Join(parts, " ") + "}"
	case ArrayV:
		parts := make([]string, len(x))
		for i, f := range x {
			parts[i] = it.render(f, nil)
		}
		return "[" + strings.Join(parts, " ") + "]"
	case SliceV:
		parts := make([]string, len(x.S))
		for i, f := range x.S {
			parts[i] = it.render(f, nil)
		}
		return "[" + strings.Join(parts, " ") + "]"
	case *Native:
		if x == nil {
			return "<nil>"
		}
		return "<" + x.Kind + ">"
	}
	return fmt.Sprintf("<%T>", v)
}

// renderTyped renders using Error()/String() methods when the dynamic type has them and the value is concrete.
func (it *Interp) renderTyped(v Value, t types.Type) string {
	if t == nil {
		return it.render(v, nil)
	}
	if _, isNat := v.(*Native); isNat {
		return it.render(v, nil)
	}
	if hasSymbolic(v, 0) {
		return symMarker
	}
	for _, name := range []string{"Error", "String"} {
		ms := it.P.Prog.MethodSets.MethodSet(t)
		for i := 0; i < ms.Len(); i++ {
			sel := ms.At(i)
			if sel.Obj().Name() != name {
				continue
			}
			sig := sel.Type().(*types.Signature)
			if sig.Params().Len() != 0 || sig.Results().Len() != 1 {
				continue
			}
			if b, ok := sig.Results().At(0).Type().Underlying().(*types.Basic); !ok || b.Kind() != types.String {
				continue
			}
			fn := it.P.Prog.MethodValue(sel)
			if fn == nil {
				continue
			}
			if p, ok := v.(*Value); ok && p == nil {
				return "<nil>"
			}
			if it.renderDepth > 4 {
				return "<...>"
			}
			it.renderDepth++
			res := it.callSync(&Closure{Fn: fn}, []Value{v})
			it.renderDepth--
			if s, ok := res.(string); ok {
				return s
			}
		}
	}
	return it.render(v, t)
}

func hasSymbolic(v Value, depth int) bool {
	if depth > 3 {
		return false
	}
	switch x := v.(type) {
	case IntV:
		return x.T != nil
	case BoolV:
		return x.T != nil
	case TimeV:
		return x.NS.T != nil
	case string:
		return strings.Contains(x, symMarker)
	case StructV:
		for _, f := range x {
			if hasSymbolic(f, depth+1) {
				return true
			}
		}
	case ArrayV:
		for _, f := range x {
			if hasSymbolic(f, depth+1) {
				return true
			}
		}
	case Iface:
		return hasSymbolic(x.V, depth+1)
	case *Value:
		if x != nil && depth < 2 {
			return hasSymbolic(*x, depth+1)
		}
	}
	return false
}
