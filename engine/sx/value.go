// Package sx is the symbolic SSA interpreter of gosx.
package sx

import (
	"fmt"
	"go/types"
	"strings"

	"gosx/smt"

	"golang.org/x/tools/go/ssa"
)

// Value is one of:
//
//	BoolV, IntV, float64 (concrete) / FloatHavoc, string, complex128
//	*Value          pointer (nil pointer = (*Value)(nil))
//	StructV, ArrayV aggregate values (copied on load/store)
//	SliceV          slice header over a shared backing []Value
//	*MapV, *Chan    reference types (nil = typed nil pointer)
//	Iface           interface value (T == nil: nil interface)
//	*Closure        function value (nil = (*Closure)(nil))
//	Tuple           multi-value results
//	TimeV           abstraction of time.Time
//	*Native         opaque objects owned by intrinsics
type Value interface{}

type BoolV struct {
	T *smt.Term // nil => concrete C
	C bool
}

type IntV struct {
	T *smt.Term // nil => concrete C
	C uint64    // masked to W bits
	W uint8
	S bool // signed
}

type FloatHavoc struct{}

type StructV []Value
type ArrayV []Value

type SliceV struct {
	S   []Value // backing window with native len/cap
	Nil bool
}

type Iface struct {
	T types.Type
	V Value
}

type Tuple []Value

type TimeV struct {
	NS IntV // int64 unix nanoseconds
}

type Closure struct {
	Fn    *ssa.Function
	Env   []Value
	Bi    *ssa.Builtin
	Intr  string // name of an intrinsic acting as a function value
	IntrA []Value
}

type MapV struct {
	KT, VT types.Type
	Keys   []any // insertion order of live keys
	M      map[any]*mapEntry
}

type mapEntry struct {
	K Value
	V Value
}

// Native is an opaque object owned by an intrinsic.
type Native struct {
	Kind string
	Obj  any
}

// ZeroTimeNS is time.Time{}.UnixNano().
var ZeroTimeNS int64 = -6795364578871345152

func mkInt(c uint64, w int, signed bool) IntV {
	if w < 64 {
		c &= (uint64(1) << uint(w)) - 1
	}
	return IntV{C: c, W: uint8(w), S: signed}
}

func (v IntV) Term() *smt.Term {
	if v.T != nil {
		return v.T
	}
	return smt.Const(v.C, int(v.W))
}

func (v IntV) IsConc() bool { return v.T == nil }

// Signed returns the concrete signed value.
func (v IntV) Int64() int64 {
	if v.W >= 64 {
		return int64(v.C)
	}
	sh := uint(64 - v.W)
	return int64(v.C<<sh) >> sh
}

func intFromTerm(t *smt.Term, signed bool) IntV {
	if t.Op == "const" {
		return IntV{C: t.Val, W: uint8(t.Sort), S: signed}
	}
	return IntV{T: t, W: uint8(t.Sort), S: signed}
}

func (v BoolV) Term() *smt.Term {
	if v.T != nil {
		return v.T
	}
	return smt.Bool(v.C)
}

func boolFromTerm(t *smt.Term) BoolV {
	if t.IsTrue() {
		return BoolV{C: true}
	}
	if t.IsFalse() {
		return BoolV{C: false}
	}
	return BoolV{T: t}
}

func isTimeType(t types.Type) bool {
	n, ok := t.(*types.Named)
	if !ok {
		return false
	}
	o := n.Obj()
	return o.Pkg() != nil && o.Pkg().Path() == "time" && o.Name() == "Time"
}

func intInfo(t types.Type) (w int, signed bool, ok bool) {
	b, isb := t.Underlying().(*types.Basic)
	if !isb {
		return 0, false, false
	}
	switch b.Kind() {
	case types.Int, types.Int64, types.UntypedInt:
		return 64, true, true
	case types.Int8:
		return 8, true, true
	case types.Int16:
		return 16, true, true
	case types.Int32, types.UntypedRune:
		return 32, true, true
	case types.Uint, types.Uint64, types.Uintptr:
		return 64, false, true
	case types.Uint8:
		return 8, false, true
	case types.Uint16:
		return 16, false, true
	case types.Uint32:
		return 32, false, true
	}
	return 0, false, false
}

// zero returns the zero value of t.
func zero(t types.Type) Value {
	if isTimeType(t) {
		return TimeV{NS: mkInt(uint64(ZeroTimeNS), 64, true)}
	}
	switch u := t.Underlying().(type) {
	case *types.Basic:
		if w, s, ok := intInfo(u); ok {
			return mkInt(0, w, s)
		}
		switch u.Kind() {
		case types.Bool, types.UntypedBool:
			return BoolV{}
		case types.String, types.UntypedString:
			return ""
		case types.Float32, types.Float64, types.UntypedFloat:
			return float64(0)
		case types.Complex64, types.Complex128:
			return complex128(0)
		case types.UnsafePointer:
			return (*Value)(nil)
		case types.UntypedNil:
			return nil
		}
		panic(fmt.Sprintf("zero: basic %v", u))
	case *types.Pointer:
		return (*Value)(nil)
	case *types.Struct:
		s := make(StructV, u.NumFields())
		for i := range s {
			s[i] = zero(u.Field(i).Type())
		}
		return s
	case *types.Array:
		a := make(ArrayV, u.Len())
		for i := range a {
			a[i] = zero(u.Elem())
		}
		return a
	case *types.Slice:
		return SliceV{Nil: true}
	case *types.Map:
		return (*MapV)(nil)
	case *types.Chan:
		return (*Chan)(nil)
	case *types.Interface:
		return Iface{}
	case *types.Signature:
		return (*Closure)(nil)
	case *types.Tuple:
		tp := make(Tuple, u.Len())
		for i := range tp {
			tp[i] = zero(u.At(i).Type())
		}
		return tp
	case *types.TypeParam:
		panic("zero of type parameter (non-instantiated generic reached)")
	}
	panic(fmt.Sprintf("zero: unhandled type %v (%T)", t, t.Underlying()))
}

// copyVal copies aggregates (struct/array) so that a loaded value does not alias memory.
func copyVal(v Value) Value {
	switch x := v.(type) {
	case StructV:
		n := make(StructV, len(x))
		for i := range x {
			n[i] = copyVal(x[i])
		}
		return n
	case ArrayV:
		n := make(ArrayV, len(x))
		for i := range x {
			n[i] = copyVal(x[i])
		}
		return n
	case Tuple:
		n := make(Tuple, len(x))
		for i := range x {
			n[i] = copyVal(x[i])
		}
		return n
	}
	return v
}

// storeInto writes v into *addr preserving the identity of nested aggregate cells.
func storeInto(addr *Value, v Value) {
	switch rhs := v.(type) {
	case StructV:
		lhs, ok := (*addr).(StructV)
		if !ok || len(lhs) != len(rhs) {
			*addr = copyVal(v)
			return
		}
		for i := range lhs {
			storeInto(&lhs[i], rhs[i])
		}
	case ArrayV:
		lhs, ok := (*addr).(ArrayV)
		if !ok || len(lhs) != len(rhs) {
			*addr = copyVal(v)
			return
		}
		for i := range lhs {
			storeInto(&lhs[i], rhs[i])
		}
	default:
		*addr = v
	}
}

// keyOf maps a (concrete) value to a comparable Go value usable as a map key.
func keyOf(v Value) (any, bool) {
	switch x := v.(type) {
	case BoolV:
		if x.T != nil {
			return nil, false
		}
		return x.C, true
	case IntV:
		if x.T != nil {
			return nil, false
		}
		return x.C, true
	case string:
		if strings.Contains(x, symMarker) {
			return nil, false
		}
		return "s:" + x, true
	case float64:
		return x, true
	case *Value, *MapV, *Chan, *Closure, *Native:
		return x, true
	case TimeV:
		if x.NS.T != nil {
			return nil, false
		}
		return fmt.Sprintf("t:%d", x.NS.C), true
	case StructV:
		var sb strings.Builder
		sb.WriteString("S{")
		for _, f := range x {
			k, ok := keyOf(f)
			if !ok {
				return nil, false
			}
			fmt.Fprintf(&sb, "%T:%v;", k, k)
		}
		sb.WriteString("}")
		return sb.String(), true
	case ArrayV:
		var sb strings.Builder
		sb.WriteString("A[")
		for _, f := range x {
			k, ok := keyOf(f)
			if !ok {
				return nil, false
			}
			fmt.Fprintf(&sb, "%v,", k)
		}
		sb.WriteString("]")
		return sb.String(), true
	case Iface:
		if x.T == nil {
			return "nil-iface", true
		}
		k, ok := keyOf(x.V)
		if !ok {
			return nil, false
		}
		return fmt.Sprintf("I<%s>%T:%v", x.T.String(), k, k), true
	case nil:
		return "nil", true
	}
	return nil, false
}

const symMarker = "\x00SYM\x00"

func (m *MapV) get(k Value) (Value, bool, error) {
	if m == nil {
		return nil, false, nil
	}
	kk, ok := keyOf(k)
	if !ok {
		return nil, false, fmt.Errorf("map key is symbolic or unhashable: %v", k)
	}
	e, ok := m.M[kk]
	if !ok {
		return nil, false, nil
	}
	return e.V, true, nil
}

func (m *MapV) set(k, v Value) error {
	kk, ok := keyOf(k)
	if !ok {
		return fmt.Errorf("map key is symbolic or unhashable: %v", k)
	}
	if e, ok := m.M[kk]; ok {
		e.V = v
		return nil
	}
	m.M[kk] = &mapEntry{K: k, V: v}
	m.Keys = append(m.Keys, kk)
	return nil
}

func (m *MapV) del(k Value) error {
	if m == nil {
		return nil
	}
	kk, ok := keyOf(k)
	if !ok {
		return fmt.Errorf("map key is symbolic or unhashable: %v", k)
	}
	if _, ok := m.M[kk]; !ok {
		return nil
	}
	delete(m.M, kk)
	for i, x := range m.Keys {
		if x == kk {
			m.Keys = append(m.Keys[:i:i], m.Keys[i+1:]...)
			break
		}
	}
	return nil
}

func newMap(kt, vt types.Type) *MapV {
	return &MapV{KT: kt, VT: vt, M: map[any]*mapEntry{}}
}

func isNilValue(v Value) bool {
	switch x := v.(type) {
	case nil:
		return true
	case *Value:
		return x == nil
	case *MapV:
		return x == nil
	case *Chan:
		return x == nil
	case *Closure:
		return x == nil
	case SliceV:
		return x.Nil
	case Iface:
		return x.T == nil
	case *Native:
		return x == nil
	}
	return false
}
