package sx

import (
	"fmt"
	"go/ast"
	"go/parser"
	"go/token"
	"os"
	"path/filepath"
	"sort"
	"strings"
	"time"

	"golang.org/x/tools/go/packages"
	"golang.org/x/tools/go/ssa"
	"golang.org/x/tools/go/ssa/ssautil"
)

const RepoModule = "github.com/element-of-surprise/coercion"

// keepBodies decides, by file path, whether function bodies of a dependency are kept (i.e. may be interpreted).
func keepBodies(filename, repoDir string) bool {
	if strings.HasPrefix(filename, repoDir+"/") {
		return true
	}
	keepMods := []string{
		"/github.com/gostdlib/base@", "/github.com/!azure/retry@", "/github.com/google/uuid@",
	}
	for _, m := range keepMods {
		if strings.Contains(filename, m) {
			return true
		}
	}
	// standard library: a few small pure packages
	if i := strings.Index(filename, "/src/"); i >= 0 && (!strings.Contains(filename, "/pkg/mod/") || strings.Contains(filename[:i], "/golang.org/toolchain@")) {
		rel := filename[i+5:]
		dir := filepath.Dir(rel)
		switch dir {
		case "errors", "iter", "slices", "maps", "cmp", "strings", "strconv", "unicode/utf8", "sort", "bytes", "internal/stringslite", "internal/bytealg":
			return true
		}
	}
	return false
}

type LoadStats struct {
	LoadS  float64
	BuildS float64
	NPkgs  int
}

// Load type-checks the repo packages named by patterns (plus overlay files) and builds SSA.
func Load(repoDir string, overlay map[string][]byte, patterns []string, buildFlags ...string) (*Program, *LoadStats, error) {
	t0 := time.Now()
	var fset *token.FileSet
	var pkgs []*packages.Package
	// Pass 1 finds the imports that become unused once dependency bodies are dropped; pass 2 blanks them,
	// so that every package is well-typed (go/ssa skips ill-typed packages).
	unused := map[string]bool{} // "file:line" of import specs to blank
	for pass := 1; pass <= 2; pass++ {
		fset = token.NewFileSet()
		cfg := &packages.Config{
			Mode:    packages.LoadAllSyntax,
			Dir:     repoDir,
			Fset:    fset,
			Overlay: overlay,
			Env:     append(cleanEnv(), "GOFLAGS=-mod=mod", "GOPROXY=off"),
			BuildFlags: buildFlags,
			ParseFile: func(fset *token.FileSet, filename string, src []byte) (*ast.File, error) {
				f, err := parser.ParseFile(fset, filename, src, parser.SkipObjectResolution)
				if err != nil {
					return f, err
				}
				if keepBodies(filename, repoDir) {
					return f, nil
				}
				stripBodies(f)
				for _, is := range f.Imports {
					pos := fset.Position(is.Pos())
					if unused[fmt.Sprintf("%s:%d", pos.Filename, pos.Line)] {
						is.Name = &ast.Ident{Name: "_", NamePos: is.Pos()}
					}
				}
				return f, nil
			},
		}
		var err error
		pkgs, err = packages.Load(cfg, patterns...)
		if err != nil {
			return nil, nil, err
		}
		var errs []string
		nUnused := 0
		packages.Visit(pkgs, nil, func(p *packages.Package) {
			for _, e := range p.Errors {
				if strings.Contains(e.Msg, "and not used") && !strings.HasPrefix(e.Pos, repoDir+"/") {
					parts := strings.Split(e.Pos, ":")
					if len(parts) >= 2 {
						unused[parts[0]+":"+parts[1]] = true
						nUnused++
					}
					continue
				}
				errs = append(errs, e.Error())
			}
		})
		if len(errs) > 0 {
			sort.Strings(errs)
			if len(errs) > 12 {
				errs = errs[:12]
			}
			return nil, nil, fmt.Errorf("load errors (harness does not type-check against the current tree?):\n  %s", strings.Join(errs, "\n  "))
		}
		if nUnused == 0 {
			break
		}
		if pass == 2 {
			return nil, nil, fmt.Errorf("imports still unused after the second load pass (%d)", nUnused)
		}
	}
	st := &LoadStats{LoadS: time.Since(t0).Seconds()}
	t1 := time.Now()
	prog, _ := ssautil.AllPackages(pkgs, ssa.InstantiateGenerics)
	prog.Build()
	st.BuildS = time.Since(t1).Seconds()
	p := &Program{Prog: prog, Fset: fset, Pkgs: map[string]*ssa.Package{}, RepoModule: RepoModule, RepoDir: repoDir}
	for _, sp := range prog.AllPackages() {
		p.Pkgs[sp.Pkg.Path()] = sp
		st.NPkgs++
	}
	return p, st, nil
}

func cleanEnv() []string {
	var out []string
	for _, e := range os.Environ() {
		if strings.HasPrefix(e, "GOFLAGS=") || strings.HasPrefix(e, "GOPROXY=") || strings.HasPrefix(e, "GOSUMDB=") || strings.HasPrefix(e, "GOTOOLCHAIN=") {
			continue
		}
		out = append(out, e)
	}
	return out
}

func stripBodies(f *ast.File) {
	for _, d := range f.Decls {
		fd, ok := d.(*ast.FuncDecl)
		if !ok || fd.Body == nil {
			continue
		}
		generic := fd.Type.TypeParams != nil && len(fd.Type.TypeParams.List) > 0
		if fd.Recv != nil && len(fd.Recv.List) > 0 {
			switch rt := fd.Recv.List[0].Type.(type) {
			case *ast.IndexExpr, *ast.IndexListExpr:
				generic = true
			case *ast.StarExpr:
				switch rt.X.(type) {
				case *ast.IndexExpr, *ast.IndexListExpr:
					generic = true
				}
			}
		}
		if (fd.Recv == nil && fd.Name.Name == "init") || generic {
			fd.Body = &ast.BlockStmt{List: []ast.Stmt{&ast.ExprStmt{X: &ast.CallExpr{
				Fun:  &ast.Ident{Name: "panic"},
				Args: []ast.Expr{&ast.BasicLit{Kind: token.STRING, Value: `"gosx:stripped"`}},
			}}}}
		} else {
			fd.Body = nil
		}
	}
}
