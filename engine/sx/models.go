package sx

func init() {
	const w = "(*github.com/gostdlib/base/concurrency/worker.Pool)."
	modelTable[w+"Submit"] = "PoolSubmit"
	modelTable[w+"Limited"] = "PoolLimited"
	modelTable[w+"Group"] = "PoolGroup"
	const l = "(*github.com/gostdlib/base/concurrency/worker.Limited)."
	modelTable[l+"Group"] = "LimitedGroup"
	const g = "(*github.com/gostdlib/base/concurrency/sync.Group)."
	modelTable[g+"Go"] = "GroupGo"
	modelTable[g+"Wait"] = "GroupWait"
	modelTable["github.com/Azure/retry/exponential.New"] = "ExpNew"
	modelTable["github.com/Azure/retry/exponential.WithPolicy"] = "WithPolicy"
	modelTable["(*github.com/Azure/retry/exponential.Backoff).Retry"] = "BackoffRetry"
	modelTable["(*sync.Pool).Get"] = "SyncPoolGet"
	modelTable["(*sync.Pool).Put"] = "SyncPoolPut"
	modelTable["zombiezen.com/go/sqlite/sqlitex.Execute"] = "SqlitexExecute"
	modelTable["zombiezen.com/go/sqlite/sqlitex.ExecuteTransient"] = "SqlitexExecute"
	modelTable["zombiezen.com/go/sqlite/sqlitex.Transaction"] = "SqlitexTransaction"
}
