package sx

import (
	"fmt"
	"go/token"
	"go/types"
	"sort"
	"strings"

	"gosx/smt"

	"golang.org/x/tools/go/ssa"
)

type Chan struct {
	id     int
	cap    IntV
	elem   types.Type
	buf    []Value
	closed bool
	sendq  []*pendingSend
	// timer channels
	timer   bool
	ticks   int
	stopped bool
	name    string
}

type pendingSend struct {
	g     *G
	v     Value
	taken bool
	ch    *Chan
}

func (it *Interp) nextChanID() int {
	it.chanCtr++
	return it.chanCtr
}

type tri int

const (
	triNo tri = iota
	triYes
	triMaybe
)

func (it *Interp) recvReady(c *Chan) bool {
	if c == nil {
		return false
	}
	if len(c.buf) > 0 || c.closed {
		return true
	}
	if c.timer && c.ticks > 0 && !c.stopped {
		return true
	}
	for _, p := range c.sendq {
		if !p.taken {
			return true
		}
	}
	return false
}

// doRecv performs a receive that is known to be ready.
func (it *Interp) doRecv(c *Chan) (Value, bool) {
	if len(c.buf) > 0 {
		v := c.buf[0]
		c.buf = c.buf[1:]
		return v, true
	}
	if c.timer && c.ticks > 0 && !c.stopped {
		c.ticks--
		return TimeV{NS: it.clockRead()}, true
	}
	for _, p := range c.sendq {
		if !p.taken {
			p.taken = true
			return p.v, true
		}
	}
	if c.closed {
		return zero(c.elem), false
	}
	panic("doRecv on non-ready channel")
}

// sendReadyTerm returns the condition under which a buffered send can proceed now.
func (it *Interp) sendReady(c *Chan) tri {
	if c == nil {
		return triNo
	}
	if c.closed {
		return triYes // will panic
	}
	if c.cap.T == nil {
		if uint64(len(c.buf)) < c.cap.C {
			return triYes
		}
		return triNo
	}
	cond := smt.Cmp("bvslt", smt.Const(uint64(len(c.buf)), int(c.cap.W)), c.cap.T)
	if it.feasible(cond) {
		return triMaybe
	}
	return triNo
}

func (it *Interp) block(g *G, on string, wait func() bool) {
	g.wait = wait
	g.waitOn = on
	g.atSwitch = true
}

func (it *Interp) execRecv(g *G, fr *Frame, x *ssa.UnOp) bool {
	if it.maybePreempt(g, fr, x) {
		return false
	}
	c, _ := it.get(fr, x.X).(*Chan)
	if !it.recvReady(c) {
		it.block(g, fmt.Sprintf("recv chan#%d", chanID(c)), func() bool { return it.recvReady(c) })
		return false
	}
	v, ok := it.doRecv(c)
	if x.CommaOk {
		it.set(fr, x, Tuple{v, BoolV{C: ok}})
	} else {
		it.set(fr, x, v)
	}
	return true
}

func chanID(c *Chan) int {
	if c == nil {
		return 0
	}
	return c.id
}

func (it *Interp) execSend(g *G, fr *Frame, x *ssa.Send) bool {
	c, _ := it.get(fr, x.Chan).(*Chan)
	if c == nil {
		it.block(g, "send on nil chan", func() bool { return false })
		return false
	}
	if c.closed {
		it.fault("panic", "send-on-closed-chan", "send on closed channel", fr)
	}
	v := copyVal(it.get(fr, x.X))
	// unbuffered rendezvous
	if c.cap.T == nil && c.cap.C == 0 {
		if p := g.pending; p != nil && p.ch == c {
			if p.taken {
				g.pending = nil
				it.removePending(c, p)
				return true
			}
			it.block(g, fmt.Sprintf("send chan#%d", c.id), func() bool { return p.taken || c.closed })
			return false
		}
		p := &pendingSend{g: g, v: v, ch: c}
		c.sendq = append(c.sendq, p)
		g.pending = p
		it.block(g, fmt.Sprintf("send chan#%d", c.id), func() bool { return p.taken || c.closed })
		return false
	}
	if c.cap.T == nil {
		if uint64(len(c.buf)) < c.cap.C {
			c.buf = append(c.buf, v)
			return true
		}
		it.block(g, fmt.Sprintf("send chan#%d (full)", c.id), func() bool { return it.sendReady(c) != triNo })
		return false
	}
	// symbolic capacity: negative capacity would have panicked in make; harnesses assume cap >= 0
	cond := smt.Cmp("bvslt", smt.Const(uint64(len(c.buf)), int(c.cap.W)), c.cap.T)
	if it.branch(boolFromTerm(cond)) {
		c.buf = append(c.buf, v)
		return true
	}
	n := len(c.buf)
	it.block(g, fmt.Sprintf("send chan#%d (full, symbolic cap)", c.id), func() bool { return len(c.buf) < n || c.closed })
	return false
}

func (it *Interp) removePending(c *Chan, p *pendingSend) {
	for i, q := range c.sendq {
		if q == p {
			c.sendq = append(c.sendq[:i:i], c.sendq[i+1:]...)
			return
		}
	}
}

func (it *Interp) execSelect(g *G, fr *Frame, x *ssa.Select) bool {
	type cs struct {
		c    *Chan
		send bool
		v    Value
	}
	cases := make([]cs, len(x.States))
	var ready []int64
	for i, st := range x.States {
		c, _ := it.get(fr, st.Chan).(*Chan)
		cases[i] = cs{c: c, send: st.Dir == types.SendOnly}
		if cases[i].send {
			cases[i].v = copyVal(it.get(fr, st.Send))
			if c != nil && c.cap.T == nil && c.cap.C == 0 {
				panic(unsupported("select with send on unbuffered channel"))
			}
			switch it.sendReady(c) {
			case triYes:
				ready = append(ready, int64(i))
			case triMaybe:
				// resolve the symbolic capacity question now
				cond := smt.Cmp("bvslt", smt.Const(uint64(len(c.buf)), int(c.cap.W)), c.cap.T)
				if it.branch(boolFromTerm(cond)) {
					ready = append(ready, int64(i))
				}
			}
		} else if it.recvReady(c) {
			ready = append(ready, int64(i))
		}
	}
	if len(ready) == 0 {
		if !x.Blocking {
			it.set(fr, x, it.selectResult(x, -1, nil, false))
			return true
		}
		chans := cases
		it.block(g, "select", func() bool {
			for _, k := range chans {
				if k.send {
					if it.sendReady(k.c) != triNo {
						return true
					}
				} else if it.recvReady(k.c) {
					return true
				}
			}
			return false
		})
		return false
	}
	pick := ready[0]
	if len(ready) > 1 {
		pick = it.decide("select", ready, nil)
	}
	k := cases[pick]
	if k.send {
		if k.c.closed {
			it.fault("panic", "send-on-closed-chan", "send on closed channel (select)", fr)
		}
		k.c.buf = append(k.c.buf, k.v)
		it.set(fr, x, it.selectResult(x, int(pick), nil, false))
		return true
	}
	v, ok := it.doRecv(k.c)
	it.set(fr, x, it.selectResult(x, int(pick), v, ok))
	return true
}

func (it *Interp) selectResult(x *ssa.Select, idx int, recv Value, ok bool) Value {
	tt := x.Type().(*types.Tuple)
	out := make(Tuple, tt.Len())
	out[0] = mkInt(uint64(int64(idx)), 64, true)
	out[1] = BoolV{C: ok}
	// one slot per receive case, in order
	slot := 2
	for i, st := range x.States {
		if st.Dir != types.RecvOnly {
			continue
		}
		if slot >= len(out) {
			break
		}
		if i == idx {
			out[slot] = recv
		} else {
			out[slot] = zero(tt.At(slot).Type())
		}
		slot++
	}
	return out
}

func (it *Interp) execGo(g *G, fr *Frame, x *ssa.Go) {
	var fnv Value
	var args []Value
	cc := &x.Call
	if cc.IsInvoke() {
		recv := it.get(fr, cc.Value).(Iface)
		if recv.T == nil {
			it.fault("panic", "nil-deref", "go with method on nil interface", fr)
		}
		m := it.P.Prog.LookupMethod(recv.T, cc.Method.Pkg(), cc.Method.Name())
		fnv = &Closure{Fn: m}
		args = append(args, recv.V)
	} else {
		fnv = it.get(fr, cc.Value)
	}
	for _, a := range cc.Args {
		args = append(args, it.get(fr, a))
	}
	it.spawn(fnv, args, fr)
}

func (it *Interp) spawn(fnv Value, args []Value, fr *Frame) *G {
	cl, _ := fnv.(*Closure)
	if cl == nil {
		it.fault("panic", "nil-func", "go of nil function", fr)
	}
	ng := &G{id: len(it.gs)}
	it.gs = append(it.gs, ng)
	if cl.Fn == nil {
		panic(unsupported("go of builtin/intrinsic"))
	}
	fn := cl.Fn
	env := cl.Env
	if h, name := it.lookupIntercept(fn); h != nil {
		panic(unsupported("go of intrinsic %s", name))
	}
	if m := it.lookupModel(fn); m != nil {
		fn, env = m, nil
	}
	nf := it.newFrame(fn, args, env)
	nf.discard = true
	ng.stack = append(ng.stack, nf)
	ng.name = fn.String()
	return ng
}

// ---------- scheduling ----------

func (it *Interp) isReady(g *G) bool {
	if g.done || len(g.stack) == 0 {
		return false
	}
	if g.wait == nil {
		return true
	}
	return g.wait()
}

// readyOthers lists ready goroutines other than g, newest first (the default order of the scheduler).
func (it *Interp) readyOthers(g *G) []*G {
	var out []*G
	for i := len(it.gs) - 1; i >= 0; i-- {
		o := it.gs[i]
		if o == g {
			continue
		}
		if it.isReady(o) {
			out = append(out, o)
		}
	}
	return out
}

// schedule picks the next goroutine when the current one cannot continue. Returns false when the path is over.
func (it *Interp) schedule() bool {
	cur := it.cur
	if it.mainDone && !it.quiescing {
		return false
	}
	var ready, parked []*G
	// default order: the current goroutine's most recently created peers first; goroutines parked at the end of a
	// plugin call (slow-yield policy) come last, longest-parked first
	for i := len(it.gs) - 1; i >= 0; i-- {
		o := it.gs[i]
		if it.isReady(o) {
			if o.parked {
				parked = append(parked, o)
			} else {
				ready = append(ready, o)
			}
		}
	}
	sort.Slice(parked, func(i, j int) bool { return parked[i].parkSeq < parked[j].parkSeq })
	ready = append(ready, parked...)
	if len(ready) == 0 {
		if it.mainDone {
			return false
		}
		// deadlock: describe every blocked goroutine
		var sb strings.Builder
		site := ""
		for _, o := range it.gs {
			if o.done || len(o.stack) == 0 {
				continue
			}
			fmt.Fprintf(&sb, "[g%d %s: %s at %s] ", o.id, o.name, o.waitOn, it.where(o.stack[len(o.stack)-1]))
			if o.id == 0 || site == "" {
				for i := len(o.stack) - 1; i >= 0; i-- {
					n := o.stack[i].fn.String()
					if strings.Contains(n, it.P.RepoModule) && !strings.Contains(n, "zzverif") && !strings.Contains(n, "Verif") && !strings.Contains(n, ".vh") {
						if site == "" || o.id != 0 {
							site = n
						}
						break
					}
				}
			}
		}
		it.cur = it.gs[0]
		v := &Violation{Kind: "deadlock", Label: "deadlock", Msg: "all goroutines blocked: " + sb.String(), Facts: map[string]string{"site": site}}
		it.recordViolation(v, nil)
		panic(pathEnd{Kind: "fault", Label: "deadlock", Msg: sb.String()})
	}
	pick := ready[0]
	if len(ready) > 1 {
		pick = it.chooseG(ready)
	}
	for _, o := range ready {
		if o != pick && o.wait != nil {
			it.races++
		}
	}
	pick.wait = nil
	pick.atSwitch = true
	pick.parked = false
	it.cur = pick
	_ = cur
	return true
}

// slowYield: the switch class is one at which goroutines park by default.
func (it *Interp) slowYield(cls string) bool {
	for _, p := range it.Cfg.SlowYield {
		if cls != "" && strings.HasPrefix(cls, p) {
			return true
		}
	}
	return false
}

// chooseG takes a scheduling decision: ready[0] is free, any other choice costs one delay.
func (it *Interp) chooseG(ready []*G) *G {
	alts := []int64{int64(ready[0].id)}
	if it.preempt < it.Cfg.Preemptions {
		for _, o := range ready[1:] {
			alts = append(alts, int64(o.id))
		}
	}
	if len(alts) == 1 {
		return ready[0]
	}
	id := it.decide("sched", alts, nil)
	if id != alts[0] {
		it.preempt++
	}
	return it.gs[id]
}

// switchClass classifies an instruction as a potential preemption point.
func (it *Interp) switchClass(fr *Frame, ins ssa.Instruction) string {
	switch x := ins.(type) {
	case *ssa.Send, *ssa.Select:
		return "chan"
	case *ssa.UnOp:
		if x.Op == token.ARROW {
			return "chan"
		}
	case *ssa.Call:
		if x.Call.IsInvoke() {
			return ""
		}
		switch c := x.Call.Value.(type) {
		case *ssa.Function:
			name := calleeName(c)
			if cls, ok := switchClasses[name]; ok {
				if cls == "yield" {
					tag, _ := it.get(fr, x.Call.Args[0]).(string)
					return "yield:" + tag
				}
				return cls
			}
		case *ssa.Builtin:
			if c.Name() == "close" {
				return "chan"
			}
		}
	}
	return ""
}

func (it *Interp) switchEnabled(cls string) bool {
	if cls == "" {
		return false
	}
	if it.Cfg.SwitchOn[cls] {
		return true
	}
	if strings.HasPrefix(cls, "yield:") {
		if it.Cfg.SwitchOn["yield"] {
			return true
		}
		tag := cls[6:]
		// prefix match on "yield:<prefix>"
		for k := range it.Cfg.SwitchOn {
			if strings.HasPrefix(k, "yield:") && strings.HasPrefix(tag, k[6:]) {
				return true
			}
		}
	}
	return false
}

// maybePreempt considers switching away from g before it executes ins. Returns true if another goroutine was chosen.
func (it *Interp) maybePreempt(g *G, fr *Frame, ins ssa.Instruction) bool {
	if g.atSwitch || g.syncDepth > 0 || it.initDepth > 0 {
		return false
	}
	if len(it.Cfg.SlowYield) > 0 && len(it.gs) >= 2 {
		if cls := it.switchClass(fr, ins); it.slowYield(cls) {
			// plugin calls are slow: by default the goroutine waits here until every other goroutine is blocked or
			// parked as well (then the longest-parked one resumes); resuming earlier is a deviation
			it.parkCtr++
			g.parked, g.parkSeq = true, it.parkCtr
			it.schedule()
			g.atSwitch = true
			return it.cur != g
		}
	}
	if it.preempt >= it.Cfg.Preemptions || len(it.gs) < 2 {
		return false
	}
	cls := it.switchClass(fr, ins)
	if !it.switchEnabled(cls) {
		return false
	}
	others := it.readyOthers(g)
	if len(others) == 0 {
		return false
	}
	alts := []int64{int64(g.id)}
	for _, o := range others {
		alts = append(alts, int64(o.id))
	}
	id := it.decide("preempt", alts, nil)
	g.atSwitch = true
	if id == int64(g.id) {
		return false
	}
	it.preempt++
	ng := it.gs[id]
	for _, o := range others {
		if o != ng && o.wait != nil {
			it.races++
		}
	}
	ng.wait = nil
	ng.atSwitch = true
	it.cur = ng
	return true
}
