package main

var commonAssumptions = []string{
	"go/ssa (x/tools v0.50.0) lowers the repository faithfully; the gosx interpreter implements SSA semantics (validated against the real build by native replay of every counterexample)",
	"integers are bit-vectors of the Go width (wrap-around is Go's); strings, pointers, slice lengths and plan shapes are concrete and enumerated by bounded case splits",
	"data-race freedom is assumed (plain memory accesses are not scheduling points)",
}

var properties = map[string]*Property{
	"C19": {
		ID: "C19",
		Runs: []Run{{Dir: "c19", Pkg: "workflow/utils/walk", Fn: "VerifC19",
			Needs: []string{"early stop explored", "full walk explored", "plan with more than 8 objects"}}},
		Assumptions: append([]string{
			"append follows the Go runtime's growth rule (growslice: doubling below 256 elements plus malloc size-class rounding), reimplemented in the interpreter",
		}, commonAssumptions...),
		OutsideClaim: []string{"plans with more than 2 blocks, 2 sequences per block, 2 actions per sequence, 2 actions per check group",
			"quick tier: blocks after the first and sequences after the first of a block are minimal (one action); check-group subsets are taken from {none, each single group, all five}"},
	},
	"C20": {
		ID: "C20",
		Runs: []Run{
			{Dir: "c20", Pkg: "workflow/builder", Fn: "VerifC20History", Needs: []string{"plan emitted and compared", "emitted plan with a block", "Plan() after misuse"}},
			{Dir: "c20", Pkg: "workflow/builder", Fn: "VerifC20Step", Needs: []string{"plan emitted and compared", "Plan() after misuse"}},
		},
		Assumptions: append([]string{
			"reference interpreter of call sequences written from the package documentation: first misuse stored and sticky until Reset, cursor moves as documented",
			"what Err() returns after a second Plan() or after a failed Reset is unspecified: only absence of panics is checked from there on",
		}, commonAssumptions...),
		OutsideClaim: []string{"call sequences longer than 3 (quick) / 4 (thorough) calls from New, or longer than 2 calls from each of the 5x2x2 directly constructed cursor/error/emitted states",
			"WithGroupID options; argument strings other than one valid and one blank representative"},
	},
	"C05": {
		ID: "C05",
		Runs: []Run{
			{Dir: "c05", Pkg: "internal/execute/sm/actions", Fn: "VerifC05Count", Needs: []string{"overrun explored", "wrong type explored", "retry explored", "retry budget exhausted", "timeout message recorded"}},
			{Dir: "c05", Pkg: "internal/execute/sm/actions", Fn: "VerifC05Check", Needs: []string{"overrun explored", "wrong type explored", "retry budget exhausted"}},
			{Dir: "c05", Pkg: "internal/execute/sm/actions", Fn: "VerifC05AnyRetries", Needs: []string{"overrun explored", "wrong type explored", "retry explored"}},
		},
		Assumptions: append([]string{
			"model plugin: the verdict of every invocation (ok, permanent, transient, wrong response type, overrun) is a solver variable; an overrunning plugin returns a retryable error only after its context is done",
			"Timeout >= 5s (what Submit enforces, C16); an attempt's deadline passes only when the plugin's verdict is overrun (latency is the plugin's choice)",
			"retry library (Azure/retry exponential.Backoff.Retry) replaced by its control-flow model: retry until success, errors.Is(err, ErrPermanent), or a done context; policy has no MaxAttempts and no transformers; interval arithmetic dropped",
			"worker.Pool.Submit modelled as goroutine spawn; statemachine.Run is the real code with OTEL spans stubbed",
			"a failed vault write is log.Fatalf (process exit) and therefore outside the property; the model vault never fails",
		}, commonAssumptions...),
		OutsideClaim: []string{"count clause for Retries > R (R=2 quick, 3 thorough): VerifC05AnyRetries covers every Retries value for the other clauses but cuts the all-transient script after 4 (5) attempts",
			"timeouts shorter than 5s; plugins that ignore cancellation forever (the engine abandons such a call by design)"},
	},
}
