package main

import "strings"

var commonAssumptions = []string{
	"go/ssa (x/tools v0.50.0) lowers the repository faithfully; the gosx interpreter implements SSA semantics (validated against the real build by native replay of every counterexample)",
	"integers are bit-vectors of the Go width (wrap-around is Go's); strings, pointers, slice lengths and plan shapes are concrete and enumerated by bounded case splits",
	"data-race freedom is assumed (plain memory accesses are not scheduling points)",
}

var properties = map[string]*Property{
	"C19": {
		ID: "C19",
		Runs: []Run{{Dir: "c19", Pkg: "workflow/utils/walk", Fn: "VerifC19",
			Needs: []string{"early stop explored", "full walk explored", "plan with more than 8 objects"}}},
		Assumptions: append([]string{
			"append follows the Go runtime's growth rule (growslice: doubling below 256 elements plus malloc size-class rounding), reimplemented in the interpreter",
		}, commonAssumptions...),
		OutsideClaim: []string{"plans with more than 2 blocks, 2 sequences per block, 2 actions per sequence, 2 actions per check group",
			"quick tier: blocks after the first and sequences after the first of a block are minimal (one action); check-group subsets are taken from {none, each single group, all five}"},
	},
	"C20": {
		ID: "C20",
		Runs: []Run{
			{Dir: "c20", Pkg: "workflow/builder", Fn: "VerifC20History", Needs: []string{"plan emitted and compared", "emitted plan with a block", "Plan() after misuse"}},
			{Dir: "c20", Pkg: "workflow/builder", Fn: "VerifC20Step", Needs: []string{"plan emitted and compared", "Plan() after misuse"}},
		},
		Assumptions: append([]string{
			"reference interpreter of call sequences written from the package documentation: first misuse stored and sticky until Reset, cursor moves as documented",
			"what Err() returns after a second Plan() or after a failed Reset is unspecified: only absence of panics is checked from there on",
		}, commonAssumptions...),
		OutsideClaim: []string{"call sequences longer than 3 (quick) / 4 (thorough) calls from New, or longer than 2 calls from each of the 5x2x2 directly constructed cursor/error/emitted states",
			"WithGroupID options; argument strings other than one valid and one blank representative"},
	},
	"C05": {
		ID: "C05",
		Runs: []Run{
			{Dir: "c05", Pkg: "internal/execute/sm/actions", Fn: "VerifC05Count", P: [2]int{2, 3}, SwitchOn: []string{"yield:enter", "yield:exit"}, Needs: []string{"overrun explored", "wrong type explored", "retry explored", "retry budget exhausted", "timeout message recorded"}},
			{Dir: "c05", Pkg: "internal/execute/sm/actions", Fn: "VerifC05Check", P: [2]int{2, 2}, SwitchOn: []string{"yield:enter", "yield:exit"}, Needs: []string{"overrun explored", "wrong type explored", "retry budget exhausted"}},
			{Dir: "c05", Pkg: "internal/execute/sm/actions", Fn: "VerifC05AnyRetries", P: [2]int{1, 2}, SwitchOn: []string{"yield:enter", "yield:exit"}, Needs: []string{"overrun explored", "wrong type explored", "retry explored"}},
		},
		Assumptions: append([]string{
			"model plugin: the verdict of every invocation (ok, permanent, transient, wrong response type, overrun) is a solver variable; an overrunning plugin returns a retryable error only after its context is done",
			"Timeout >= 5s (what Submit enforces, C16); an attempt's deadline passes only when the plugin's verdict is overrun (latency is the plugin's choice)",
			"retry library (Azure/retry exponential.Backoff.Retry) replaced by its control-flow model: retry until success, errors.Is(err, ErrPermanent), or a done context; policy has no MaxAttempts and no transformers; interval arithmetic dropped",
			"worker.Pool.Submit modelled as goroutine spawn; statemachine.Run is the real code with OTEL spans stubbed; sync.Pool is a LIFO free list (Get returns the most recent Put, else New())",
			"schedules: the plugin goroutine of an overrun attempt may be delayed past the start of later attempts (delay bound P at plugin entry/exit: 2 quick)",
			"a failed vault write is log.Fatalf (process exit) and therefore outside the property; the model vault never fails",
		}, commonAssumptions...),
		OutsideClaim: []string{"count clause for Retries > R (R=2 quick, 3 thorough): VerifC05AnyRetries covers every Retries value for the other clauses but cuts the all-transient script after 4 (5) attempts",
			"timeouts shorter than 5s; plugins that ignore cancellation forever (the engine abandons such a call by design)"},
	},
	"C01": eProp("C01", []eRun{{"VerifC01Seq@full:t", 0, 0, nil}, {"VerifC01PlanGroups@full:t", 0, 0, nil}, {"VerifC01BlockGroups@full:t", 0, 0, nil}, {"VerifC01Seq", 0, 1, nil}, {"VerifC01PlanGroups", 1, 1, nil}, {"VerifC01BlockGroups", 1, 1, nil}, {"VerifC01Conc", 1, 2, []string{"plan completed", "plan failed"}},
		{"VerifC01ContBlocks@slow", 1, 1, nil}, {"VerifC01PlanCont:t", 1, 1, nil}, {"VerifC01Conc4@slow", 1, 1, nil}, {"VerifC01Conc4@slow@full:t", 1, 1, nil}, {"VerifC01ContSeqs@slow", 1, 2, nil}, {"VerifC01Conc@slow", 1, 2, nil},
		{"VerifC01Seq@slow:t", 1, 1, nil}, {"VerifC01PlanGroups@slow:t", 1, 1, nil}, {"VerifC01BlockGroups@slow:t", 1, 1, nil}},
		[]string{"shapes beyond: <=2 blocks x <=2 sequences x <=2 actions without check groups; any subset of the five plan-level (resp. block-level) groups on a 1x1x1 plan; 2..3 (4) parallel sequences",
			"continuous-check actions are exempt from the 'deferred checks come last' clause: block-level continuous checks are drained after the block's deferred checks by design"}),
	"C02": eProp("C02", []eRun{{"VerifC02Seq@full:t", 0, 0, nil}, {"VerifC02Conc", 1, 2, []string{"two sequences in flight"}}, {"VerifC02Seq", 0, 1, nil}, {"VerifC02Conc@slow", 1, 2, []string{"two sequences in flight"}},
		{"VerifC02ContBlocks@slow", 1, 1, nil}, {"VerifC02ContBlocks@slow@full:t", 1, 1, nil}, {"VerifC02ContSeqs@slow:t", 1, 1, nil}},
		[]string{"more than two plans on one executor (VerifMulti runs two)", "more than 3 sequences per block with symbolic Concurrency (4 with Concurrency 2 in C01/C04's Conc4 family)"}),
	"C03": eProp("C03", []eRun{{"VerifC03Seq@full:t", 0, 0, nil}, {"VerifC03Conc", 1, 2, []string{"block failed by tolerance", "failures tolerated", "stopped at the exceeding failure"}}, {"VerifC03Seq", 0, 1, []string{"block failed by tolerance", "failures tolerated"}}, {"VerifC03Conc@slow", 1, 2, []string{"block failed by tolerance", "failures tolerated"}},
		{"VerifC03CrashSeq", 0, 0, []string{"crash while the plan is durably Running", "block failed by tolerance", "failures tolerated"}}},
		[]string{"the literal 'never started once exceeded' is asserted through its schedule-robust consequences (failed <= tol+Concurrency; exact stop with Concurrency 1): between a sequence's last plugin exit and the engine's failure count another admitted sequence may legitimately start"}),
	"C04": eProp("C04", []eRun{{"VerifC04Seq@full:t", 0, 0, nil}, {"VerifC04PlanGroups@full:t", 0, 0, nil}, {"VerifC04BlockGroups@full:t", 0, 0, nil}, {"VerifC04Seq", 0, 1, nil}, {"VerifC04PlanGroups", 1, 1, nil}, {"VerifC04BlockGroups", 1, 1, nil}, {"VerifC04Conc", 1, 2, nil},
		{"VerifC04ContBlocks@slow", 1, 1, nil}, {"VerifC04PlanCont:t", 1, 1, nil}, {"VerifC04Conc4@slow", 1, 1, nil}, {"VerifC04Conc4@slow@full:t", 1, 1, nil}, {"VerifC04ContSeqs@slow@full:t", 1, 1, nil}, {"VerifC04ContSeqs@slow", 1, 2, nil}, {"VerifC04Conc@slow", 1, 2, nil},
		{"VerifC04Seq@slow:t", 1, 1, nil}, {"VerifC04PlanGroups@slow:t", 1, 1, nil}, {"VerifC04BlockGroups@slow:t", 1, 1, nil}},
		[]string{"that Reason survives storage is C13's obligation", "more than two plans running concurrently on one executor (VerifMulti runs two, through execute.Plans.Start/Wait)"}),
	"C06": eProp("C06", []eRun{{"VerifC06PlanGroups@full:t", 0, 0, nil}, {"VerifC06BlockGroups@full:t", 0, 0, nil}, {"VerifC06PlanGroups", 1, 1, []string{"plan bypassed", "plan bypass failed, plan ran", "plan pre-check failed", "plan initial cont-check failed"}},
		{"VerifC06BlockGroups", 1, 1, []string{"block bypassed", "block pre-check failed", "block initial cont-check failed"}}, {"VerifC06BothGroups", 0, 1, nil},
		{"VerifC06PlanGroups@slow:t", 1, 1, nil}, {"VerifC06BlockGroups@slow:t", 1, 1, nil}},
		[]string{"more than one action per check group in the quick tier (two in thorough)"}),
	"C07": eProp("C07", []eRun{{"VerifC07PlanGroups@full:t", 0, 0, nil}, {"VerifC07BlockGroups@full:t", 0, 0, nil}, {"VerifC07PlanGroups", 1, 1, []string{"plan cont-check failed", "plan deferred checks ran"}}, {"VerifC07BlockGroups", 1, 1, []string{"block cont-check failed", "block deferred checks ran"}},
		{"VerifC07ContSeqs@slow", 1, 2, []string{"block cont-check failed"}}, {"VerifC07PlanCont", 1, 1, []string{"plan cont-check failed", "block deferred checks ran"}}, {"VerifC07BothGroups:t", 1, 1, nil},
		{"VerifC07PlanGroups@slow:t", 1, 1, nil}, {"VerifC07BlockGroups@slow:t", 1, 1, nil}},
		[]string{"continuous-check runs beyond the K-th tick of each ticker (K=2)"}),
	"C08": eProp("C08", []eRun{{"VerifC08Seq@full:t", 0, 0, nil}, {"VerifC08PlanGroups@full:t", 0, 0, nil}, {"VerifC08BlockGroups@full:t", 0, 0, nil}, {"VerifC08Seq", 0, 1, nil}, {"VerifC08PlanGroups", 1, 1, nil}, {"VerifC08BlockGroups", 1, 1, nil}, {"VerifC08Conc", 1, 2, nil}, {"VerifC08Conc@slow", 1, 2, nil}},
		[]string{"polling histories are covered through the write log: every write to a block, sequence or sequence action that was durably Completed/Failed keeps that status (given atomic writes)", "waiter release: two concurrent waiters and one late waiter on one plan (VerifC08Wait)"}),
	"C09": eProp("C09", []eRun{{"VerifC09SeqSmall", 0, 0, []string{"crash while the plan is durably Running", "action invoked during recovery", "action not invoked during recovery", "crash under a coarse clock"}},
		{"VerifC09PlanGroups", 0, 0, []string{"crash while the plan is durably Running"}}, {"VerifC09BlockGroups", 0, 0, []string{"crash while the plan is durably Running"}},
		{"VerifC09Conc", 0, 1, []string{"crash while the plan is durably Running", "action invoked during recovery"}},
		{"VerifC09Conc@slow:t", 0, 0, []string{"crash while the plan is durably Running", "action invoked during recovery"}},
		{"VerifC09Double:t", 0, 0, []string{"second crash during recovery", "action invoked during recovery", "action not invoked during recovery"}}},
		[]string{"crash points are the prefixes of the durable write log of a forward run (the crash index is a solver variable; the durable image is ite-encoded); in-memory state is lost, each write is atomic",
			"shapes: one block with <=2 sequences x <=2 actions; 1x1x1 with the 7-subset family of plan-level resp. block-level groups; two parallel sequences (thorough: one scheduling deviation, and the slow-plugin scheduler)",
			"a second crash during recovery with a third engine instance: thorough tier only, on one block x one sequence x two actions (VerifC09Double, VerifC10Double); the quick tier covers the second crash through C10's resumability clause", "real process kill on a file-backed store is outside this technique"}),
	"C10": eProp("C10", []eRun{{"VerifC10SeqSmall", 0, 0, []string{"crash while the plan is durably Running", "uninterrupted outcome Failed", "uninterrupted outcome Completed"}},
		{"VerifC10PlanGroups", 0, 0, []string{"crash while the plan is durably Running"}}, {"VerifC10BlockGroups", 0, 0, []string{"crash while the plan is durably Running"}},
		{"VerifC10Conc", 0, 1, []string{"crash while the plan is durably Running", "uninterrupted outcome Failed"}},
		{"VerifC10Conc@slow:t", 0, 0, []string{"crash while the plan is durably Running", "uninterrupted outcome Failed"}},
		{"VerifC10Double:t", 0, 0, []string{"second crash during recovery", "uninterrupted outcome Failed", "uninterrupted outcome Completed"}}},
		[]string{"as C09; the outcome-equality clause is asserted with one verdict variable per action shared by both processes, on shapes without continuous checks",
			"constructing a Workstream (coercion.New -> execute.New -> recover) is C11's harness; here States.Recovery is entered directly with the plan a vault Read returns"}),
	"C11": {
		ID: "C11",
		Runs: []Run{
			{Dir: "c11", Pkg: "internal/execute", Fn: "VerifC11Filter", NativeLenient: true, Needs: []string{"stale Running plan", "live Running plan", "boundary age resumed", "non-Running plan left alone"}},
			{Dir: "c11", Pkg: "internal/execute", Fn: "VerifC11New", Needs: []string{"recovery disabled", "recovery enabled"}},
		},
		Assumptions: append([]string{
			"store content: 1..2 plans (1 block, 1 sequence, 1 action each) with any 64-bit status on the plan and on the action, any instant (or the zero time) as plan start and as a nested end time",
			"clock readings and stored instants lie in [0, 2^62) ns (years 1970..2116), 0 <= maximum age < 2^61 ns, so that last+max does not wrap",
			"'most recent recorded activity' is the engine's definition: the maximum State.Start/End over all objects of the plan (attempt timestamps are not part of it)",
			"model vault whose Search implements the specified status filter; the harness additionally asserts that the filter passed is exactly ByStatus=[Running]",
			"VerifC11Filter drives Plans.recover (real recover state machine and runPlan) with a recording runner; VerifC11New runs the real execute.New with the real engine behind it",
		}, commonAssumptions...),
		OutsideClaim: []string{"more than 2 (quick) / 3 (thorough) plans in the store; Search itself returning every Running plan is C15's obligation"},
	},
	"C12": {
		ID: "C12",
		Runs: []Run{
			{Dir: "c12", Pkg: "internal/execute", Fn: "VerifC12Race", P: [2]int{2, 3}, Ticks: [2]int{1, 1}, SwitchOn: []string{"yield:r", "lock"}, Needs: []string{"race explored"}},
			{Dir: "c12", Pkg: "internal/execute", Fn: "VerifC12Repeat", P: [2]int{1, 2}, Ticks: [2]int{1, 1}, SwitchOn: []string{"yield:r", "lock"}, Needs: []string{"restart after finish rejected", "restart while starting explored"}},
			{Dir: "c12", Pkg: "internal/execute", Fn: "VerifC12Stale", NativeLenient: true, Needs: []string{"stale submission rejected", "fresh submission accepted", "boundary age accepted"}},
			{Dir: "c12ws", Pkg: "", Fn: "VerifC12History", Ticks: [2]int{1, 1}, Needs: []string{"a plan was started", "waited for a started plan"}},
		},
		Assumptions: append([]string{
			"model vault honouring the Vault contract: Read of an unknown id returns an error (that the SQLite vault does so is C13's obligation)",
			"racing Start calls: context switches at the vault's Read (before and after the snapshot is taken) and at lock operations, delay bound P",
			"staleness clause: SubmitTime and clock in [0, 2^62) ns, 0 < maxSubmit < 2^61 ns",
			"API histories of at most 3 (quick) / 4 (thorough) calls among Submit, Start, Wait, Plan, Status on the first submitted id or a fresh unknown id; Status is consumed for one result with interval 1s",
			"the engine behind Start is the real one (sm.States) with the model plugin; worker pool, sync.Group, ShardedMap (linearizable map) and retry library are models",
		}, commonAssumptions...),
		OutsideClaim: []string{"Status with a non-positive interval (time.NewTicker panics by contract)", "more than two racing Start calls; histories mixing concurrent API calls other than Start"},
	},
	"C16": {
		ID: "C16",
		Runs: []Run{
			{Dir: "c16", Pkg: "", Fn: "VerifC16Single", Needs: []string{"accepted", "rejected", "start accepted", "start refused"}},
		},
		Assumptions: append([]string{
			"well-formedness predicate written from the statement: a valid base plan with at most one mutation from 17 classes placed at every applicable object (the two-mutation harness VerifC16Pairs exists but is not registered: it did not finish within an hour even on a one-block plan); Timeout and Retries of one action and every block's Concurrency are 64-bit solver variables",
			"model plugin registry: plugins 'action' and 'check'; ValidateReq rejects a negative or wrongly typed request",
			"registry.findSecrets (reflection, property C17) is stubbed to return nil; the model vault records Create",
		}, commonAssumptions...),
		OutsideClaim: []string{"plans beyond 2 blocks x 2 sequences x 2 actions; name/description strings other than a valid one, the empty string and whitespace",
			"the execution that follows an accepted Start (C01..C08)"},
	},
	"C18": {
		ID: "C18",
		Runs: []Run{
			{Dir: "c18", Pkg: "workflow/utils/clone", Fn: "VerifC18Plan", Needs: []string{"clone of a fresh plan resubmitted", "clone of a plan that has run resubmitted", "keep-state clone compared", "attempts compared"}},
			{Dir: "c18", Pkg: "workflow/utils/clone", Fn: "VerifC18Parts", Needs: []string{"block cloned", "sequence cloned", "checks cloned", "action cloned"}},
		},
		Assumptions: append([]string{
			"deep.MustCopy (reflection/unsafe) is replaced by the interpreter's deep copy, i.e. its contract; clone.Secure (reflection, property C17) is a no-op: assumed to touch only secure-tagged fields, and the model request/response types have none",
			"every definition scalar of the plan, its blocks, check groups and of one designated action is a solver variable, as are status and times of plan, blocks, sequences and that action, Reason, SubmitTime and the fields of 0..1 (quick) / 0..2 (thorough) attempts; check groups share one status picked from {NotStarted, Running, Completed, Failed}",
			"NoAlias walks both object graphs in the interpreter's memory: any shared pointer, slice backing array or map is a violation",
			"resubmission goes through the real Workstream.Submit with the model registry and vault",
		}, commonAssumptions...),
		OutsideClaim: []string{"WithRemoveCompletedSequences (not part of the statement)", "Key fields (not in the statement's list of definition fields; the code does not copy them)",
			"request/response types other than the model's flat structs (deep copy of arbitrary types is deep.MustCopy's contract)"},
	},
	"C13": {
		ID: "C13",
		Runs: []Run{
			{Dir: "c13", Pkg: "workflow/storage/sqlite", Fn: "VerifC13Create", Needs: []string{"plan compared after Create", "two blocks compared", "attempts compared"}},
			{Dir: "c13", Pkg: "workflow/storage/sqlite", Fn: "VerifC13Update", Needs: []string{"plan updated", "checks updated", "block updated", "sequence updated", "action updated", "plan compared after updates", "action reset after an attempt was stored"}},
			{Dir: "c13", Pkg: "workflow/storage/sqlite", Fn: "VerifC13Unknown", Needs: []string{"read after delete", "read of a never created id"}},
		},
		Assumptions: append([]string{
			"SQLite (modernc, C compiled to Go) is replaced by a row-store contract driven by the SQL text the real code produces: a mini-parser for exactly the statement forms of the package (anything else, including text the code garbles, is a prepare error), SQLite's storage-class rules for the comparisons that occur (TEXT vs BLOB never equal, quoted word in expression position is a string literal), PRIMARY KEY and NOT NULL constraints, a blocking pool of one connection, snapshot transactions",
			"sqlitex.Execute/ExecuteTransient/Transaction are Go-source models (prepare, bind by sqlitex's own value mapping, step, ResultFunc per row; commit iff *err == nil)",
			"go-json-experiment Marshal/Unmarshal are opaque tokens that round-trip a value of the declared type (json v2 decodes into the value an interface already holds); Marshal fails for values holding a channel or function",
			"clock range: stored instants are the zero time or lie in [1ns, 2^62 ns) after the epoch",
			"sampled symbolic paths are re-run natively against the real in-memory SQLite (native differential in this evidence file); every counterexample is replayed there too",
		}, commonAssumptions...),
		OutsideClaim: []string{"the CosmosDB vault: its only executable semantics here is the package's test fake, which ignores query text and stores through SQLite+JSON itself (DESIGN.md section 7)",
			"real JSON typing of requests/responses; SQLite's own durability; plans beyond 2 blocks x 2 sequences x 2 actions; more than 2 updates after Create",
			"symbolic content: every scalar of the plan, blocks, check groups and one designated action (statuses on the first object of each kind, times on the plan and that action); other objects carry fixed pairwise distinct values"},
	},
	"C14": {
		ID: "C14",
		Runs: []Run{
			{Dir: "c13,c14", Pkg: "workflow/storage/sqlite", Fn: "VerifC14Atomic", Needs: []string{"failure injected", "create failed", "create succeeded"}},
			{Dir: "c13,c14", Pkg: "workflow/storage/sqlite", Fn: "VerifC14Twice", Needs: []string{"first plan intact after duplicate create"}},
			{Dir: "c13,c14", Pkg: "workflow/storage/sqlite", Fn: "VerifC14Delete", Needs: []string{"other plan intact after delete"}},
			{Dir: "c13,c14", Pkg: "workflow/storage/sqlite", Fn: "VerifC14Interleave", Needs: []string{"plan re-created after delete", "one plan stored, the other deleted"}},
		},
		Assumptions: append([]string{"fault model: at most one failure per Create, injected at any Prepare, Step or json.Marshal call-site instance (a solver boolean per instance), or a request holding a channel at any action position",
			"crash-mid-Submit clause: every statement of commitPlan/deletePlan runs inside the open transaction (asserted); SQLite's atomic commit is assumed, a process kill itself is not simulated"}, append([]string{
			"SQLite (modernc, C compiled to Go) is replaced by a row-store contract driven by the SQL text the real code produces: a mini-parser for exactly the statement forms of the package (anything else, including text the code garbles, is a prepare error), SQLite's storage-class rules for the comparisons that occur (TEXT vs BLOB never equal, quoted word in expression position is a string literal), PRIMARY KEY and NOT NULL constraints, a blocking pool of one connection, snapshot transactions",
			"sqlitex.Execute/ExecuteTransient/Transaction are Go-source models (prepare, bind by sqlitex's own value mapping, step, ResultFunc per row; commit iff *err == nil)",
			"go-json-experiment Marshal/Unmarshal are opaque tokens that round-trip a value of the declared type (json v2 decodes into the value an interface already holds); Marshal fails for values holding a channel or function",
			"clock range: stored instants are the zero time or lie in [1ns, 2^62 ns) after the epoch",
			"sampled symbolic paths are re-run natively against the real in-memory SQLite (native differential in this evidence file); every counterexample is replayed there too",
		}, commonAssumptions...)...),
		OutsideClaim: []string{"CosmosDB (see C13)", "real process kill on a file-backed store", "two or more simultaneous failures", "Create/Delete histories longer than 4 (quick) / 5 (thorough) operations or over more than two plans"},
	},
	"C15": {
		ID: "C15",
		Runs: []Run{
			{Dir: "c13,c15", Pkg: "workflow/storage/sqlite", Fn: "VerifC15Exists", Needs: []string{"exists explored"}},
			{Dir: "c13,c15", Pkg: "workflow/storage/sqlite", Fn: "VerifC15Search", Needs: []string{"search returned several plans", "two statuses searched", "searched by ids or groups"}},
			{Dir: "c13,c15", Pkg: "workflow/storage/sqlite", Fn: "VerifC15Running", Needs: []string{"running search explored"}},
			{Dir: "c13,c15", Pkg: "workflow/storage/sqlite", Fn: "VerifC15List", Needs: []string{"limit cut the result", "several plans listed"}},
			{Dir: "c13,c15", Pkg: "workflow/storage/sqlite", Fn: "VerifC15Cancel", P: [2]int{1, 2}, SwitchOn: []string{"yield:cancel", "chan"}, Needs: []string{"stream ended by cancellation and was closed"}},
		},
		Assumptions: append([]string{"store content: 1..2 (3) plans with any 64-bit status, symbolic submit time and a group from a pool of two; filters: ByIDs, ByGroupIDs, ByStatus of length 0..2 in every combination with symbolic status values; limit any 64-bit value",
			"a result stream that is never closed shows as a deadlock of the consuming range loop"}, append([]string{
			"SQLite (modernc, C compiled to Go) is replaced by a row-store contract driven by the SQL text the real code produces: a mini-parser for exactly the statement forms of the package (anything else, including text the code garbles, is a prepare error), SQLite's storage-class rules for the comparisons that occur (TEXT vs BLOB never equal, quoted word in expression position is a string literal), PRIMARY KEY and NOT NULL constraints, a blocking pool of one connection, snapshot transactions",
			"sqlitex.Execute/ExecuteTransient/Transaction are Go-source models (prepare, bind by sqlitex's own value mapping, step, ResultFunc per row; commit iff *err == nil)",
			"go-json-experiment Marshal/Unmarshal are opaque tokens that round-trip a value of the declared type (json v2 decodes into the value an interface already holds); Marshal fails for values holding a channel or function",
			"clock range: stored instants are the zero time or lie in [1ns, 2^62 ns) after the epoch",
			"sampled symbolic paths are re-run natively against the real in-memory SQLite (native differential in this evidence file); every counterexample is replayed there too",
		}, commonAssumptions...)...),
		OutsideClaim: []string{"CosmosDB (see C13)", "equal submit times (order among ties is unspecified)", "more than 3 (4) plans"},
	},
}

type eRun struct {
	fn    string
	pq    int
	pt    int
	needs []string
}

var engineAssumptions = append([]string{
	"model plugin: the verdict (ok / permanent error) of every invocation is a solver variable; Retries = 0, Timeout 30s (attempt semantics are C05's)",
	"model vault: each Update* is atomic and durable on return and never fails (a failed write is log.Fatalf, i.e. process exit, outside every property); Read returns a fresh deep copy built from the durable image",
	"worker.Pool.Submit = goroutine spawn (may refuse when its context is already done), Pool.Limited(n) = counting semaphore with symbolic capacity, sync.Group = WaitGroup + error list, Backoff.Retry = control-flow model; statemachine.Run is the real code",
	"logical clock: successive clock readings are concrete and strictly increasing (timestamps matter only through their order; equal readings are not explored)",
	"Concurrency >= 1 (Block.Defaults), ToleratedFailures any 64-bit value; delays 0; tickers offer at most K ticks",
	"scheduling: context switches at blocking points, plus at most P deviations (delay bound) from a deterministic default scheduler at plugin entry/exit; P and K are in bounds. Two default schedulers are used: 'fast plugins' (newest ready goroutine first, the running goroutine continues through plugin entry/exit) and, for runs marked @slow, 'slow plugins' (a goroutine at the end of a plugin call waits until every other goroutine is blocked or waiting there too, longest-waiting first)",
}, commonAssumptions...)

func eProp(id string, runs []eRun, outside []string) *Property {
	p := &Property{ID: id, Assumptions: engineAssumptions, OutsideClaim: outside}
	ticks := [2]int{2, 2}
	if id == "C09" || id == "C10" {
		ticks = [2]int{1, 1} // crash harnesses multiply every forward path by its crash classes
	}
	for _, r := range runs {
		needs := r.needs
		if needs == nil {
			needs = []string{"plan completed", "plan failed"}
		}
		// "Fn[@slow][@full][:t]": @slow = slow-plugin default scheduler; @full = the larger shape bounds (thorough tier);
		// :t = thorough tier only. Runs without @full keep the quick shapes in both tiers (only the delay bound grows).
		fn, tonly := strings.CutSuffix(r.fn, ":t")
		fn, full := strings.CutSuffix(fn, "@full")
		fn, slow := strings.CutSuffix(fn, "@slow")
		byRun := true
		crossEvery := 0
		if id == "C09" || id == "C10" {
			crossEvery = 10 // cvc5 1.0 is ~7x slower than z3 on the crash families' ite-chain queries
		}
		p.Runs = append(p.Runs, Run{Dir: "engine", Pkg: "internal/execute/sm", Fn: fn, P: [2]int{r.pq, r.pt}, Ticks: ticks,
			SwitchOn: []string{"yield:enter", "yield:exit"}, Needs: needs, Slow: slow, ThoroughOnly: tonly || full, Full: full, ShapesByRun: byRun, CrossEvery: crossEvery})
	}
	return p
}

func init() {
	// C08's clause "each attempt's result is durable before the next attempt begins" needs retries: the action-level
	// harness (real actions.Runner, every outcome script) asserts it at every plugin entry.
	properties["C08"].Runs = append(properties["C08"].Runs,
		Run{Dir: "c05", Pkg: "internal/execute/sm/actions", Fn: "VerifC05Count", Needs: []string{"retry explored"}})
	properties["C08"].OutsideClaim = append(properties["C08"].OutsideClaim, "attempt-level durability is checked on a single action with Retries <= R (R=2 quick, 3 thorough)")
	// C08: "the terminal state of the whole plan is durable before any waiter is released": real Plans.Start/runPlan/Wait, three waiters.
	properties["C08"].Runs = append(properties["C08"].Runs,
		Run{Dir: "c12", Pkg: "internal/execute", Fn: "VerifC08Wait", P: [2]int{1, 2}, Ticks: [2]int{1, 1}, SwitchOn: []string{"yield:enter", "yield:exit", "yield:w"},
			Needs: []string{"plan completed", "plan failed", "late waiter released"}})
	// C02/C04: "including when several plans run on one Workstream": two plans through execute.Plans.Start/Wait.
	multi := Run{Dir: "c12", Pkg: "internal/execute", Fn: "VerifMulti", P: [2]int{1, 2}, Ticks: [2]int{1, 1}, SwitchOn: []string{"yield:enter", "yield:exit"},
		Needs: []string{"Wait returned while the other plan was still Running", "actions of both plans in flight together", "one plan failed, the other completed", "two sequences of one block in flight"}}
	multiSlow := multi
	multiSlow.Slow, multiSlow.ThoroughOnly, multiSlow.P = true, true, [2]int{1, 1}
	properties["C02"].Runs = append(properties["C02"].Runs, multi, multiSlow)
	properties["C04"].Runs = append(properties["C04"].Runs, multi, multiSlow)
	// C01: the context passed to Start may be cancelled by the caller at any time without affecting execution.
	properties["C01"].Runs = append(properties["C01"].Runs,
		Run{Dir: "c12", Pkg: "internal/execute", Fn: "VerifC01Cancel", P: [2]int{1, 2}, Ticks: [2]int{1, 1}, SwitchOn: []string{"yield:enter", "yield:exit", "yield:w"},
			Needs: []string{"caller cancelled while the plan was running", "block pre-check ran"}})
}
