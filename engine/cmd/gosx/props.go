package main

var commonAssumptions = []string{
	"go/ssa (x/tools v0.50.0) lowers the repository faithfully; the gosx interpreter implements SSA semantics (validated against the real build by native replay of every counterexample)",
	"integers are bit-vectors of the Go width (wrap-around is Go's); strings, pointers, slice lengths and plan shapes are concrete and enumerated by bounded case splits",
	"data-race freedom is assumed (plain memory accesses are not scheduling points)",
}

var properties = map[string]*Property{
	"C19": {
		ID: "C19",
		Runs: []Run{{Dir: "c19", Pkg: "workflow/utils/walk", Fn: "VerifC19",
			Needs: []string{"early stop explored", "full walk explored", "plan with more than 8 objects"}}},
		Assumptions: append([]string{
			"append follows the Go runtime's growth rule (growslice: doubling below 256 elements plus malloc size-class rounding), reimplemented in the interpreter",
		}, commonAssumptions...),
		OutsideClaim: []string{"plans with more than 2 blocks, 2 sequences per block, 2 actions per sequence, 2 actions per check group",
			"quick tier: blocks after the first and sequences after the first of a block are minimal (one action); check-group subsets are taken from {none, each single group, all five}"},
	},
}
