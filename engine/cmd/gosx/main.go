// gosx: bounded symbolic execution of Go SSA with an SMT back end (see /verif/DESIGN.md).
package main

import (
	"encoding/json"
	"flag"
	"fmt"
	"os"
	"path/filepath"
	"runtime"
	"sort"
	"strconv"
	"strings"
	"time"

	"gosx/sx"

	"golang.org/x/tools/go/ssa"
)

var (
	verifDir = envOr("VERIF_DIR", "/verif")
	repoDir  = envOr("VERIF_REPO", "/repo")
)

func envOr(k, d string) string {
	if v := os.Getenv(k); v != "" {
		return v
	}
	return d
}

// buildOverlay maps virtual paths under repoDir to the contents of the harness API, models and harness files.
// Returns the overlay, the set of harness package directories (relative), and virtual->real path map.
func buildOverlay(harnessDirs []string) (map[string][]byte, []string, map[string]string, error) {
	ov := map[string][]byte{}
	v2r := map[string]string{}
	add := func(virtual, real string) error {
		b, err := os.ReadFile(real)
		if err != nil {
			return err
		}
		ov[virtual] = b
		v2r[virtual] = real
		return nil
	}
	for _, sub := range []string{"api", "models", "shape", "kit"} {
		files, _ := filepath.Glob(filepath.Join(verifDir, "api/zzverif", sub, "*.go"))
		for _, f := range files {
			if err := add(filepath.Join(repoDir, "internal/zzverif", sub, filepath.Base(f)), f); err != nil {
				return nil, nil, nil, err
			}
		}
	}
	pkgSet := map[string]bool{}
	var expanded []string
	for _, hd := range harnessDirs {
		expanded = append(expanded, strings.Split(hd, ",")...) // "c13,c14": c14's harnesses reuse c13's helpers
	}
	harnessDirs = expanded
	for _, hd := range harnessDirs {
		files, _ := filepath.Glob(filepath.Join(verifDir, "harness", hd, "*.go"))
		for _, f := range files {
			b, err := os.ReadFile(f)
			if err != nil {
				return nil, nil, nil, err
			}
			rel := ""
			for _, line := range strings.Split(string(b), "\n") {
				if strings.HasPrefix(line, "//verif:package ") {
					rel = strings.TrimSpace(strings.TrimPrefix(line, "//verif:package "))
					break
				}
			}
			if rel == "" {
				return nil, nil, nil, fmt.Errorf("%s: missing //verif:package header", f)
			}
			if rel == "." {
				rel = ""
			}
			pkgSet[rel] = true
			base := "zz_verif_" + strings.ReplaceAll(hd, "/", "_") + "_" + filepath.Base(f)
			virtual := filepath.Join(repoDir, rel, base)
			ov[virtual] = b
			v2r[virtual] = f
		}
	}
	var pkgs []string
	for p := range pkgSet {
		pkgs = append(pkgs, p)
	}
	sort.Strings(pkgs)
	return ov, pkgs, v2r, nil
}

func loadProgram(harnessDirs []string) (*sx.Program, *sx.LoadStats, map[string]string, error) {
	ov, pkgs, v2r, err := buildOverlay(harnessDirs)
	if err != nil {
		return nil, nil, nil, err
	}
	symOv := map[string][]byte{}
	for k, v := range ov {
		if strings.HasSuffix(k, "_test.go") {
			continue
		}
		symOv[k] = v
	}
	patterns := []string{"./internal/zzverif/api", "./internal/zzverif/models", "./internal/zzverif/shape", "./internal/zzverif/kit"}
	for _, p := range pkgs {
		if p == "" {
			patterns = append(patterns, ".")
		} else {
			patterns = append(patterns, "./"+p)
		}
	}
	mf, err := modfileCopy()
	if err != nil {
		return nil, nil, nil, err
	}
	prog, st, err := sx.Load(repoDir, symOv, patterns, "-modfile="+mf)
	return prog, st, v2r, err
}

func findEntry(p *sx.Program, pkgRel, fn string) (*ssa.Function, error) {
	path := sx.RepoModule
	if pkgRel != "" && pkgRel != "." {
		path += "/" + pkgRel
	}
	sp := p.Pkgs[path]
	if sp == nil {
		return nil, fmt.Errorf("package %s not loaded", path)
	}
	f := sp.Func(fn)
	if f == nil {
		return nil, fmt.Errorf("harness function %s not found in %s", fn, path)
	}
	return f, nil
}

func main() {
	if len(os.Args) < 2 {
		fmt.Fprintln(os.Stderr, "usage: gosx check <Cxx> quick|thorough | gosx run ... | gosx replay <cex.json>")
		os.Exit(2)
	}
	switch os.Args[1] {
	case "run":
		os.Exit(cmdRun(os.Args[2:]))
	case "check":
		os.Exit(cmdCheck(os.Args[2:]))
	case "replay":
		os.Exit(cmdReplay(os.Args[2:]))
	case "selftest":
		os.Exit(cmdSelftest(os.Args[2:]))
	case "table":
		// the registered runs as a markdown table (pasted into DESIGN.md section 19)
		var ids []string
		for id := range properties {
			ids = append(ids, id)
		}
		sort.Strings(ids)
		fmt.Println("| property | run | package | scheduler | P quick/thorough | ticks | tier |")
		fmt.Println("|---|---|---|---|---|---|---|")
		for _, id := range ids {
			for _, r := range properties[id].Runs {
				sched, p, tk, tier := "-", "-", "-", "quick+thorough"
				if len(r.SwitchOn) > 0 {
					sched = "fast plugins"
					if r.Slow {
						sched = "slow plugins"
					}
					p = fmt.Sprintf("%d / %d", r.P[0], r.P[1])
					tk = fmt.Sprintf("%d / %d", r.Ticks[0], r.Ticks[1])
				}
				if r.ThoroughOnly {
					tier = "thorough"
					p = strings.TrimPrefix(p, fmt.Sprintf("%d / ", r.P[0]))
				}
				pkg := r.Pkg
				if pkg == "" {
					pkg = "(root)"
				}
				fmt.Printf("| %s | %s | %s | %s | %s | %s | %s |\n", id, r.Label(), pkg, sched, p, tk, tier)
			}
		}
	default:
		fmt.Fprintln(os.Stderr, "unknown command", os.Args[1])
		os.Exit(2)
	}
}

// cmdRun is the development entry: run one harness function and print the report.
func cmdRun(args []string) int {
	fs := flag.NewFlagSet("run", flag.ExitOnError)
	dir := fs.String("dir", "", "harness directory under /verif/harness")
	pkg := fs.String("pkg", "", "repo-relative package of the harness")
	fn := fs.String("fn", "", "harness function")
	tier := fs.String("tier", "quick", "tier")
	pre := fs.Int("P", 1, "delay/preemption bound")
	ticks := fs.Int("ticks", 1, "ticks per ticker")
	sw := fs.String("switch", "", "comma separated switch classes")
	workers := fs.Int("j", runtime.NumCPU(), "workers")
	maxPaths := fs.Int("maxpaths", 0, "path limit")
	maxSteps := fs.Int("maxsteps", 2_000_000, "instruction budget per path")
	solver := fs.String("solver", "z3", "solver")
	cross := fs.String("cross", "", "cross-check solver (cvc5, z3-new)")
	verbose := fs.Bool("v", false, "print functions and stubs")
	bounds := fs.String("bound", "", "comma separated bound overrides name=value")
	slow := fs.String("slow", "", "comma separated switch classes at which goroutines park by default (slow-plugin policy)")
	fs.Parse(args)
	prog, st, _, err := loadProgram([]string{*dir})
	if err != nil {
		fmt.Fprintln(os.Stderr, "LOAD FAILED:", err)
		return 2
	}
	fmt.Fprintf(os.Stderr, "loaded %d packages in %.1fs, ssa %.1fs\n", st.NPkgs, st.LoadS, st.BuildS)
	entry, err := findEntry(prog, *pkg, *fn)
	if err != nil {
		fmt.Fprintln(os.Stderr, err)
		return 2
	}
	cfg := &sx.Config{Harness: *fn, Tier: *tier, MaxSteps: *maxSteps, Preemptions: *pre, Ticks: *ticks, SwitchOn: map[string]bool{}, Bounds: map[string]int{}}
	for _, s := range strings.Split(*sw, ",") {
		if s != "" {
			cfg.SwitchOn[s] = true
		}
	}
	for _, s := range strings.Split(*slow, ",") {
		if s != "" {
			cfg.SlowYield = append(cfg.SlowYield, s)
		}
	}
	for _, s := range strings.Split(*bounds, ",") {
		if k, v, ok := strings.Cut(s, "="); ok {
			n, _ := strconv.Atoi(v)
			cfg.Bounds[k] = n
		}
	}
	ex := &sx.Explorer{P: prog, Cfg: cfg, Entry: entry, Workers: *workers, SolverKind: *solver, TimeoutMS: 20000, MaxPaths: *maxPaths, CrossSolver: *cross}
	rep := ex.Run()
	printReport(rep, *verbose)
	if len(rep.Violations) > 0 {
		return 1
	}
	if rep.Unsupported > 0 || rep.Truncated > 0 || rep.Aborted != "" {
		return 2
	}
	return 0
}

func printReport(rep *sx.Report, verbose bool) {
	fmt.Printf("harness %s: paths=%d done=%d dropped=%d cut=%d faults=%d truncated=%d unsupported=%d decisions=%d queries=%d (sat %d unsat %d unknown %d) solver=%.1fs wall=%.1fs steps=%d maxpc=%d\n",
		rep.Harness, rep.Paths, rep.Done, rep.Dropped, rep.Cut, rep.Faults, rep.Truncated, rep.Unsupported, rep.Decisions, rep.Queries, rep.NSat, rep.NUnsat, rep.NUnknown, rep.SolverS, rep.WallS, rep.Steps, rep.MaxPC)
	if rep.Aborted != "" {
		fmt.Println("ABORTED:", rep.Aborted)
	}
	for m, n := range rep.UnsupportedMsgs {
		fmt.Printf("  UNSUPPORTED x%d: %s\n", n, m)
	}
	for m, n := range rep.TruncatedMsgs {
		fmt.Printf("  TRUNCATED x%d: %s\n", n, m)
	}
	for m, n := range rep.CutMsgs {
		fmt.Printf("  cut x%d: %s\n", n, m)
	}
	for _, e := range rep.SolverErrors {
		fmt.Println("  SOLVER ERROR:", e)
	}
	var ws []string
	for w, n := range rep.Reached {
		ws = append(ws, fmt.Sprintf("%s=%d", w, n))
	}
	sort.Strings(ws)
	fmt.Println("  witnesses:", strings.Join(ws, " "))
	fmt.Printf("  asserts evaluated=%d (solver-decided %d)\n", rep.Asserts, rep.AssertQueries)
	groups := map[string][]*sx.Violation{}
	var order []string
	for _, v := range rep.Violations {
		k := v.Kind + "|" + v.Label + "|" + v.Facts["site"]
		if _, ok := groups[k]; !ok {
			order = append(order, k)
		}
		groups[k] = append(groups[k], v)
	}
	for _, k := range order {
		vs := groups[k]
		v := vs[0]
		for _, o := range vs {
			if len(o.Decisions) < len(v.Decisions) {
				v = o
			}
		}
		b, _ := json.Marshal(v.Model)
		fmt.Printf("  VIOLATION-CANDIDATE x%d kind=%s label=%q where=%s\n     msg=%s\n     facts=%v\n     model=%s\n     choices=%v\n     decisions=%v\n     trace=%v\n", len(vs), v.Kind, v.Label, v.Where, trunc(v.Msg, 900), v.Facts, trunc(string(b), 600), v.Choices, v.Decisions, v.Trace)
	}
	if verbose {
		var fns []string
		for f := range rep.Fns {
			fns = append(fns, f)
		}
		sort.Strings(fns)
		fmt.Println("  functions interpreted:")
		for _, f := range fns {
			fmt.Println("    ", f)
		}
		var ss []string
		for s := range rep.Stubs {
			ss = append(ss, s)
		}
		sort.Strings(ss)
		fmt.Println("  stubs:", strings.Join(ss, ", "))
	}
}

func trunc(s string, n int) string {
	if len(s) > n {
		return s[:n] + "..."
	}
	return s
}

var _ = time.Now

// modfileCopy copies /repo's go.mod and go.sum next to each other under /verif/out so that the go command
// (run with -mod=mod because overlay files import packages that go.mod lists as indirect) never rewrites /repo/go.mod.
func modfileCopy() (string, error) {
	dir := filepath.Join(verifDir, "out", "modfile")
	if err := os.MkdirAll(dir, 0o755); err != nil {
		return "", err
	}
	for _, f := range []string{"go.mod", "go.sum"} {
		b, err := os.ReadFile(filepath.Join(repoDir, f))
		if err != nil {
			return "", err
		}
		if err := os.WriteFile(filepath.Join(dir, f), b, 0o644); err != nil {
			return "", err
		}
	}
	return filepath.Join(dir, "go.mod"), nil
}
