package main

import (
	"bytes"
	"encoding/json"
	"fmt"
	"os"
	"os/exec"
	"path/filepath"
	"regexp"
	"runtime"
	"sort"
	"strconv"
	"strings"
	"time"

	"gosx/sx"
)

// Run describes one harness run of a property.
type Run struct {
	Dir string // harness directory under /verif/harness
	Pkg string // repo-relative package
	Fn  string
	// per tier: index 0 quick, 1 thorough
	P             [2]int
	Ticks         [2]int
	SwitchOn      []string
	MaxSteps      int
	Bounds        [2]map[string]int
	Needs         []string // vacuity witnesses that must be reached
	ThoroughOnly  bool
	NativeLenient bool // native differential run may legitimately differ (real scheduler): disagreements are reported, not fatal
	TimeBudgetS   [2]int
	// Slow selects the slow-plugin default scheduler: a goroutine reaching the end of a plugin call waits until every
	// other goroutine is blocked or at the end of a plugin call too (longest-waiting first); resuming earlier is a deviation.
	Slow bool
	// Full: in the thorough tier the run uses the larger (thorough) shape bounds; otherwise it keeps the quick shapes and
	// only its delay bound grows. Only meaningful when ShapesByRun is set.
	Full bool
	// CrossEvery: thorough tier re-decides one assertion batch in CrossEvery with cvc5 (0 = every batch). cvc5 1.0 is ~7x
	// slower than z3 on the crash families' ite-chain queries.
	CrossEvery  int
	ShapesByRun bool
}

// Label names the run in output and evidence (a harness may run under both default schedulers).
func (r *Run) Label() string {
	l := r.Fn
	if r.Slow {
		l += "@slow"
	}
	if r.Full {
		l += "@full"
	}
	return l
}

type Property struct {
	ID           string
	Runs         []Run
	Assumptions  []string
	OutsideClaim []string
}

type KnownFinding struct {
	State    string            `json:"state"` // known | fixed
	Property string            `json:"property"`
	Harness  string            `json:"harness"`
	Verdict  string            `json:"verdict"`
	Label    string            `json:"label"`
	Site     string            `json:"site,omitempty"`
	When     map[string]string `json:"when,omitempty"`
	What     string            `json:"what"`
	Commit   string            `json:"commit,omitempty"`
	ID       string            `json:"id,omitempty"`
}

func loadKnown() []KnownFinding {
	b, err := os.ReadFile(filepath.Join(verifDir, "known_findings.json"))
	if err != nil {
		return nil
	}
	var k []KnownFinding
	if err := json.Unmarshal(b, &k); err != nil {
		fmt.Fprintln(os.Stderr, "known_findings.json:", err)
		return nil
	}
	return k
}

func matchKnown(k []KnownFinding, prop string, v *sx.Violation) *KnownFinding {
	for i := range k {
		e := &k[i]
		if e.State != "known" || e.Property != prop || (e.Harness != "" && e.Harness != v.Harness) || e.Verdict != v.Kind || e.Label != v.Label {
			continue
		}
		if e.Site != "" && e.Site != v.Facts["site"] {
			continue
		}
		okAll := true
		for key, val := range e.When {
			if v.Facts[key] != val {
				okAll = false
				break
			}
		}
		if okAll {
			return e
		}
	}
	return nil
}

var quotedRe = regexp.MustCompile(`"((?:[^"\\]|\\.)*)"`)

// onlyKnownLabels: the native run failed, and every failing assertion label is the label of a listed known finding.
func onlyKnownLabels(known []KnownFinding, prop, detail string) bool {
	i := strings.Index(detail, "failures=[")
	if i < 0 || !strings.Contains(detail, "panic=<nil>") {
		return false
	}
	seg := detail[i+len("failures=["):]
	if j := strings.Index(seg, "] skipped="); j >= 0 {
		seg = seg[:j]
	}
	ms := quotedRe.FindAllStringSubmatch(seg, -1)
	if len(ms) == 0 {
		return false
	}
	for _, m := range ms {
		ok := false
		for _, k := range known {
			if k.State == "known" && k.Property == prop && k.Label == m[1] {
				ok = true
			}
		}
		if !ok {
			return false
		}
	}
	return true
}

type cexFile struct {
	Property  string            `json:"property"`
	Harness   string            `json:"harness"`
	Dir       string            `json:"dir"`
	Pkg       string            `json:"pkg"`
	Kind      string            `json:"kind"`
	Label     string            `json:"label"`
	Msg       string            `json:"msg"`
	Where     string            `json:"where"`
	Model     map[string]int64  `json:"model"`
	Choices   map[string]int64  `json:"choices"`
	Facts     map[string]string `json:"facts"`
	Trace     []string          `json:"trace"`
	Decisions []int64           `json:"decisions"`
	Tier      string            `json:"tier"`
}

func cmdCheck(args []string) int {
	if len(args) < 2 {
		fmt.Fprintln(os.Stderr, "usage: gosx check <Cxx> quick|thorough")
		return 2
	}
	id, tier := args[0], args[1]
	ti := 0
	if tier == "thorough" {
		ti = 1
	} else if tier != "quick" {
		fmt.Fprintln(os.Stderr, "tier must be quick or thorough")
		return 2
	}
	prop, ok := properties[id]
	if !ok {
		fmt.Fprintln(os.Stderr, "no check registered for", id)
		return 2
	}
	seed, _ := strconv.Atoi(os.Getenv("VERIF_SEED"))
	start := time.Now()
	outDir := filepath.Join(verifDir, "out", id)
	os.RemoveAll(outDir)
	os.MkdirAll(outDir, 0o755)
	os.MkdirAll(filepath.Join(verifDir, "evidence"), 0o755)

	dirSet := map[string]bool{}
	var dirs []string
	for _, r := range prop.Runs {
		if !dirSet[r.Dir] {
			dirSet[r.Dir] = true
			dirs = append(dirs, r.Dir)
		}
	}
	ev := newEvidence(id, tier, seed)
	prog, lst, _, err := loadProgram(dirs)
	if err != nil {
		fmt.Println("INCONCLUSIVE: cannot load /repo with the harness overlay:", err)
		ev.Inconclusive = append(ev.Inconclusive, "load: "+err.Error())
		ev.write(time.Since(start).Seconds(), 0)
		return 2
	}
	ev.LoadS = lst.LoadS + lst.BuildS
	known := loadKnown()

	workers := runtime.NumCPU()
	if w, err := strconv.Atoi(os.Getenv("VERIF_WORKERS")); err == nil && w > 0 {
		workers = w
	}
	exit := 0
	nViol := 0
	replayN := 0
	only := map[string]bool{}
	for _, h := range strings.Split(os.Getenv("VERIF_ONLY"), ",") {
		if h != "" {
			only[h] = true
		}
	}
	if len(only) > 0 {
		// development aid: a subset of the property's harnesses; never a verdict on the property
		ev.Inconclusive = append(ev.Inconclusive, "VERIF_ONLY set: partial run")
		exit = 2
	}
	for _, r := range prop.Runs {
		if r.ThoroughOnly && ti == 0 {
			continue
		}
		if len(only) > 0 && !only[r.Fn] && !only[r.Label()] {
			continue
		}
		entry, err := findEntry(prog, r.Pkg, r.Fn)
		if err != nil {
			fmt.Println("INCONCLUSIVE:", err)
			ev.Inconclusive = append(ev.Inconclusive, err.Error())
			exit = 2
			continue
		}
		maxSteps := r.MaxSteps
		if maxSteps == 0 {
			maxSteps = 3_000_000
		}
		shapeTier := tier
		if r.ShapesByRun {
			shapeTier = "quick"
			if r.Full {
				shapeTier = "thorough"
			}
		}
		cfg := &sx.Config{Harness: r.Fn, Tier: shapeTier, MaxSteps: maxSteps, Preemptions: r.P[ti], Ticks: r.Ticks[ti], SwitchOn: map[string]bool{}, Bounds: map[string]int{}}
		for _, s := range r.SwitchOn {
			cfg.SwitchOn[s] = true
		}
		if r.Slow {
			cfg.SlowYield = []string{"yield:exit"}
		}
		for k, v := range r.Bounds[ti] {
			cfg.Bounds[k] = v
		}
		ex := &sx.Explorer{P: prog, Cfg: cfg, Entry: entry, Workers: workers, SolverKind: "z3", TimeoutMS: 20000, Seed: seed}
		if ti == 1 && os.Getenv("VERIF_NO_XSOLVER") == "" {
			ex.CrossSolver = "cvc5"
			ex.CrossEvery = r.CrossEvery
		}
		if r.TimeBudgetS[ti] > 0 {
			ex.Deadline = time.Now().Add(time.Duration(r.TimeBudgetS[ti]) * time.Second)
		}
		rep := ex.Run()
		fmt.Printf("[%s %s] %s: paths=%d done=%d faults=%d dropped=%d cut=%d truncated=%d unsupported=%d queries=%d (unsat %d sat %d unknown %d) asserts=%d solver=%.1fs wall=%.1fs\n",
			id, tier, r.Label(), rep.Paths, rep.Done, rep.Faults, rep.Dropped, rep.Cut, rep.Truncated, rep.Unsupported, rep.Queries, rep.NUnsat, rep.NSat, rep.NUnknown, rep.Asserts, rep.SolverS, rep.WallS)
		ev.addReport(&r, rep, cfg)

		// translator validation: sampled symbolic paths are re-run natively (real build, real libraries) under one
		// model of their path condition; every assertion must pass there as well
		if os.Getenv("VERIF_NO_NATIVE") == "" {
			for si, smp := range rep.Samples {
				model, _ := smp["one_model_of_path_condition"].(map[string]int64)
				choices, _ := smp["choices"].(map[string]int64)
				trace, _ := smp["trace_full"].([]string)
				delete(smp, "trace_full")
				cf := &cexFile{Property: id, Harness: r.Fn, Dir: r.Dir, Pkg: r.Pkg, Kind: "sample", Label: "", Model: model, Choices: choices, Trace: trace, Tier: tier}
				if r.P[ti] == 0 && len(r.SwitchOn) == 0 {
					cf.Trace = nil // sequential harness: no schedule to enforce
				}
				cexPath := filepath.Join(outDir, fmt.Sprintf("sample-%s-%d.json", r.Label(), si))
				b, _ := json.MarshalIndent(cf, "", " ")
				os.WriteFile(cexPath, b, 0o644)
				verdict, detail := nativeSample(cf, cexPath, outDir)
				smp["native_run"] = verdict
				switch verdict {
				case "agrees":
					ev.NativeAgree++
				case "skipped":
					ev.NativeSkipped++
				default:
					ev.NativeDisagree = append(ev.NativeDisagree, r.Label()+": "+trunc(detail, 300))
					if onlyKnownLabels(known, id, detail) {
						// the real scheduler took the sampled inputs down a schedule on which a listed known finding shows
						fmt.Printf("  note: native re-run of a sampled path of %s shows a listed known finding under the real scheduler: %s\n", r.Label(), trunc(detail, 200))
					} else if r.NativeLenient {
						fmt.Printf("  note: native re-run of a sampled path of %s differs (schedule-dependent harness): %s\n", r.Label(), trunc(detail, 200))
					} else {
						fmt.Printf("INCONCLUSIVE: a sampled symbolic path of %s does not behave the same natively (encoding or stub defect): %s\n", r.Label(), trunc(detail, 400))
						exit = max(exit, 2)
					}
				}
			}
		}

		// inconclusive conditions
		if rep.Unsupported > 0 {
			for m, n := range rep.UnsupportedMsgs {
				fmt.Printf("INCONCLUSIVE: %d path(s) left the encodable fragment: %s\n", n, trunc(m, 400))
			}
			exit = max(exit, 2)
		}
		if rep.Truncated > 0 {
			for m, n := range rep.TruncatedMsgs {
				fmt.Printf("INCONCLUSIVE: %d path(s) hit an unwinding limit: %s\n", n, m)
			}
			exit = max(exit, 2)
		}
		if rep.Aborted != "" {
			fmt.Println("INCONCLUSIVE: exploration stopped early:", rep.Aborted)
			exit = max(exit, 2)
		}
		if rep.NUnknown > 0 || len(rep.SolverErrors) > 0 {
			fmt.Printf("INCONCLUSIVE: solver returned unknown/error on %d queries %v\n", rep.NUnknown, rep.SolverErrors)
			exit = max(exit, 2)
		}
		for _, w := range r.Needs {
			if rep.Reached[w] == 0 {
				fmt.Printf("INCONCLUSIVE: vacuity witness %q was not reached by any feasible path of %s\n", w, r.Label())
				ev.Inconclusive = append(ev.Inconclusive, "witness not reached: "+w)
				exit = max(exit, 2)
			}
		}

		// violations: known findings, then replay
		groups := map[string][]*sx.Violation{}
		var order []string
		for _, v := range rep.Violations {
			gk := v.Kind + "|" + v.Label + "|" + v.Facts["site"]
			if _, ok := groups[gk]; !ok {
				order = append(order, gk)
			}
			groups[gk] = append(groups[gk], v)
		}
		for _, gk := range order {
			vs := groups[gk]
			var unlisted []*sx.Violation
			knownHit := map[string]*KnownFinding{}
			for _, v := range vs {
				if k := matchKnown(known, id, v); k != nil {
					knownHit[k.What] = k
				} else {
					unlisted = append(unlisted, v)
				}
			}
			for _, k := range knownHit {
				fmt.Printf("KNOWN-FINDING: property=%s %s\n", id, k.What)
				ev.KnownFindings = append(ev.KnownFindings, k.What)
			}
			if len(unlisted) == 0 {
				continue
			}
			for _, v := range unlisted {
				kf := map[string]string{}
				for k, f := range v.Facts {
					if !strings.HasPrefix(k, "i:") {
						kf[k] = f
					}
				}
				b, _ := json.Marshal(kf)
				fmt.Printf("  unlisted violation: harness=%s verdict=%s label=%q key-facts=%s\n", v.Harness, v.Kind, v.Label, b)
			}
			// replay up to 3 representatives of the group against the real build
			confirmed := false
			var firstScript string
			tries := unlisted
			if len(tries) > 3 {
				tries = tries[:3]
			}
			// a witness whose schedule the replay controller cannot force (goroutines racing between two yield points)
			// does not reproduce; other witnesses of the same violation are tried before giving up
			for _, v := range unlisted {
				tries = append(tries, v.Alternates...)
			}
			sort.SliceStable(tries, func(i, j int) bool { return tries[i].Races < tries[j].Races })
			if len(tries) > 8 {
				tries = tries[:8]
			}
			for _, v := range tries {
				replayN++
				cf := &cexFile{Property: id, Harness: r.Fn, Dir: r.Dir, Pkg: r.Pkg, Kind: v.Kind, Label: v.Label, Msg: v.Msg, Where: v.Where,
					Model: v.Model, Choices: v.Choices, Facts: v.Facts, Trace: v.Trace, Decisions: v.Decisions, Tier: tier}
				cexPath := filepath.Join(outDir, fmt.Sprintf("cex-%d.json", replayN))
				b, _ := json.MarshalIndent(cf, "", " ")
				os.WriteFile(cexPath, b, 0o644)
				script := filepath.Join(outDir, fmt.Sprintf("replay-%d.sh", replayN))
				os.WriteFile(script, []byte(fmt.Sprintf("#!/bin/sh\n# replays %s (%s: %s) against the real build\nexec %s replay %s\n", id, v.Kind, v.Label, filepath.Join(verifDir, "bin/gosx"), cexPath)), 0o755)
				if firstScript == "" {
					firstScript = script
				}
				res := replayCex(cf, cexPath, outDir)
				ev.Replays = append(ev.Replays, map[string]any{"label": v.Label, "kind": v.Kind, "reproduced": res.Reproduced, "detail": trunc(res.Detail, 300)})
				if res.Reproduced {
					confirmed = true
					nViol++
					fmt.Printf("  counterexample (%s) %q at %s\n    model: %s\n    facts: %v\n    native replay: %s\n", v.Kind, v.Label, v.Where, modelString(v.Model), v.Facts, trunc(res.Detail, 300))
					fmt.Printf("VIOLATION property=%s replay=%s\n", id, script)
					exit = max(exit, 1)
					if exit == 2 {
						exit = 1
					}
					break
				}
				fmt.Printf("  UNCONFIRMED counterexample (%s) %q: native replay did not reproduce it: %s\n", v.Kind, v.Label, trunc(res.Detail, 500))
			}
			if !confirmed {
				ev.Unconfirmed = append(ev.Unconfirmed, gk)
				fmt.Printf("INCONCLUSIVE: solver counterexample %q could not be reproduced natively (encoding or stub defect to fix); see %s\n", gk, firstScript)
				if exit == 0 {
					exit = 2
				}
			}
		}
	}
	// a reproduced violation dominates inconclusive conditions
	if nViol > 0 {
		exit = 1
	}
	ev.write(time.Since(start).Seconds(), nViol)
	switch exit {
	case 0:
		fmt.Printf("PASS property=%s tier=%s (%.1fs)\n", id, tier, time.Since(start).Seconds())
	case 2:
		fmt.Printf("INCONCLUSIVE property=%s tier=%s (%.1fs)\n", id, tier, time.Since(start).Seconds())
	}
	return exit
}

func modelString(m map[string]int64) string {
	var ks []string
	for k := range m {
		ks = append(ks, k)
	}
	sort.Strings(ks)
	var sb strings.Builder
	for i, k := range ks {
		if i > 0 {
			sb.WriteString(" ")
		}
		if i > 30 {
			sb.WriteString("...")
			break
		}
		fmt.Fprintf(&sb, "%s=%d", k, m[k])
	}
	return sb.String()
}

// ---------- native replay ----------

type replayResult struct {
	Reproduced bool
	Detail     string
}

const replayTestTmpl = `package %s

import (
	"fmt"
	"os"
	"runtime"
	"testing"
	"time"

	"github.com/element-of-surprise/coercion/internal/zzverif/api"
)

func TestVerifReplay(t *testing.T) {
	hs := map[string]func(){%s}
	h := hs[os.Getenv("VERIF_HARNESS")]
	if h == nil {
		t.Fatalf("unknown harness %%q", os.Getenv("VERIF_HARNESS"))
	}
	type out struct {
		f []string
		s string
		p any
	}
	ch := make(chan out, 1)
	go func() {
		f, s, p := api.Run(h)
		ch <- out{f, s, p}
	}()
	select {
	case o := <-ch:
		fmt.Printf("VERIF-REPLAY failures=%%q skipped=%%q panic=%%v\n", o.f, o.s, o.p)
		if o.p != nil {
			fmt.Printf("VERIF-REPLAY-PANIC %%v\n", o.p)
		}
	case <-time.After(15 * time.Second):
		buf := make([]byte, 1<<20)
		n := runtime.Stack(buf, true)
		fmt.Printf("VERIF-REPLAY hang\n%%s\n", buf[:n])
	}
}
`

// harnessFuncs lists the exported Verif* functions declared in the (non-test) harness files of dir that target pkg.
func harnessFuncs(dir, pkg string) (pkgName string, fns []string) {
	var files []string
	for _, d := range strings.Split(dir, ",") {
		fs, _ := filepath.Glob(filepath.Join(verifDir, "harness", d, "*.go"))
		files = append(files, fs...)
	}
	for _, f := range files {
		if strings.HasSuffix(f, "_test.go") {
			continue
		}
		b, _ := os.ReadFile(f)
		src := string(b)
		rel := ""
		for _, line := range strings.Split(src, "\n") {
			if strings.HasPrefix(line, "//verif:package ") {
				rel = strings.TrimSpace(strings.TrimPrefix(line, "//verif:package "))
			}
			if strings.HasPrefix(line, "package ") && pkgName == "" && (rel == pkg || (rel == "." && pkg == "")) {
				pkgName = strings.TrimSpace(strings.TrimPrefix(line, "package "))
			}
		}
		if rel != pkg && !(rel == "." && pkg == "") {
			continue
		}
		for _, line := range strings.Split(src, "\n") {
			if strings.HasPrefix(line, "func Verif") {
				name := strings.TrimPrefix(line, "func ")
				if i := strings.Index(name, "("); i > 0 {
					fns = append(fns, name[:i])
				}
			}
		}
	}
	return
}

// buildReplayBinary compiles the harness package's test binary natively with the overlay.
func buildReplayBinary(dir, pkg, outDir string) (string, error) {
	bin := filepath.Join(outDir, "replay_"+strings.NewReplacer("/", "_", ",", "_").Replace(dir+"_"+pkg)+".test")
	if _, err := os.Stat(bin); err == nil {
		return bin, nil
	}
	ov, _, v2r, err := buildOverlay([]string{dir})
	if err != nil {
		return "", err
	}
	_ = ov
	pkgName, fns := harnessFuncs(dir, pkg)
	if pkgName == "" {
		return "", fmt.Errorf("no harness file for package %q in %s", pkg, dir)
	}
	var ents []string
	for _, f := range fns {
		ents = append(ents, fmt.Sprintf("%q: %s", f, f))
	}
	testSrc := fmt.Sprintf(replayTestTmpl, pkgName, strings.Join(ents, ", "))
	testReal := filepath.Join(outDir, "zz_verif_replay_"+strings.NewReplacer("/", "_", ",", "_").Replace(dir+"_"+pkg)+"_test.go")
	if err := os.WriteFile(testReal, []byte(testSrc), 0o644); err != nil {
		return "", err
	}
	repl := map[string]string{}
	for v, r := range v2r {
		repl[v] = r
	}
	repl[filepath.Join(repoDir, pkg, "zz_verif_replay_test.go")] = testReal
	ovb, _ := json.Marshal(map[string]any{"Replace": repl})
	ovPath := filepath.Join(outDir, "overlay_"+strings.NewReplacer("/", "_", ",", "_").Replace(dir+"_"+pkg)+".json")
	os.WriteFile(ovPath, ovb, 0o644)
	target := "./" + pkg
	if pkg == "" {
		target = "."
	}
	mf, err := modfileCopy()
	if err != nil {
		return "", err
	}
	cmd := exec.Command("go", "test", "-c", "-vet=off", "-modfile="+mf, "-overlay", ovPath, "-o", bin, target)
	cmd.Dir = repoDir
	cmd.Env = append(cleanGoEnv(), "GOFLAGS=-mod=mod", "GOPROXY=off")
	var buf bytes.Buffer
	cmd.Stdout, cmd.Stderr = &buf, &buf
	if err := cmd.Run(); err != nil {
		return "", fmt.Errorf("native build of the harness failed: %v\n%s", err, trunc(buf.String(), 2000))
	}
	return bin, nil
}

func cleanGoEnv() []string {
	var out []string
	for _, e := range os.Environ() {
		if strings.HasPrefix(e, "GOFLAGS=") || strings.HasPrefix(e, "GOPROXY=") || strings.HasPrefix(e, "GOSUMDB=") || strings.HasPrefix(e, "GOTOOLCHAIN=") {
			continue
		}
		out = append(out, e)
	}
	return out
}

func replayCex(cf *cexFile, cexPath, outDir string) replayResult {
	bin, err := buildReplayBinary(cf.Dir, cf.Pkg, outDir)
	if err != nil {
		return replayResult{Detail: err.Error()}
	}
	attempts := 1
	if len(cf.Trace) > 0 {
		attempts = 5
	}
	var last string
	for i := 0; i < attempts; i++ {
		cmd := exec.Command(bin, "-test.run", "^TestVerifReplay$", "-test.count=1", "-test.timeout=60s")
		cmd.Dir = filepath.Join(repoDir, cf.Pkg)
		cmd.Env = append(os.Environ(), "VERIF_MODEL="+cexPath, "VERIF_HARNESS="+cf.Harness, "VERIF_TIER="+cf.Tier)
		var buf bytes.Buffer
		cmd.Stdout, cmd.Stderr = &buf, &buf
		done := make(chan error, 1)
		cmd.Start()
		go func() { done <- cmd.Wait() }()
		var runErr error
		select {
		case runErr = <-done:
		case <-time.After(90 * time.Second):
			cmd.Process.Kill()
			runErr = fmt.Errorf("timeout")
		}
		out := buf.String()
		last = out
		line := ""
		for _, l := range strings.Split(out, "\n") {
			if strings.HasPrefix(l, "VERIF-REPLAY") {
				line = l
				break
			}
		}
		switch cf.Kind {
		case "assert":
			if strings.Contains(line, "failures=") && strings.Contains(line, strconv.Quote(cf.Label)) {
				return replayResult{Reproduced: true, Detail: line}
			}
		case "panic":
			if strings.Contains(line, "panic=") && !strings.Contains(line, "panic=<nil>") {
				return replayResult{Reproduced: true, Detail: line}
			}
			if strings.Contains(out, "\npanic: ") || strings.HasPrefix(out, "panic: ") {
				return replayResult{Reproduced: true, Detail: firstLines(out, "panic: ", 3)}
			}
		case "deadlock":
			if strings.HasPrefix(line, "VERIF-REPLAY hang") {
				site := cf.Facts["site"]
				short := site
				if i := strings.LastIndex(site, "/"); i >= 0 {
					short = site[i+1:]
				}
				short = strings.NewReplacer("(", "", ")", "", "*", "").Replace(short)
				if site == "" || strings.Contains(strings.NewReplacer("(", "", ")", "", "*", "").Replace(out), short) {
					return replayResult{Reproduced: true, Detail: "harness did not return within 15s; a goroutine is parked in " + site}
				}
				return replayResult{Reproduced: true, Detail: "harness did not return within 15s"}
			}
		case "fatal":
			if line == "" && runErr != nil && !strings.Contains(out, "panic:") {
				return replayResult{Reproduced: true, Detail: "process exited: " + firstLines(out, "", 2)}
			}
		}
		if strings.Contains(line, "skipped=\"assumption") {
			last = "assumption failed natively under the model: " + line
		}
	}
	return replayResult{Detail: trunc(last, 1500)}
}

func firstLines(s, from string, n int) string {
	if from != "" {
		if i := strings.Index(s, from); i >= 0 {
			s = s[i:]
		}
	}
	ls := strings.Split(s, "\n")
	if len(ls) > n {
		ls = ls[:n]
	}
	return strings.Join(ls, " | ")
}

func cmdReplay(args []string) int {
	if len(args) < 1 {
		fmt.Fprintln(os.Stderr, "usage: gosx replay <cex.json>")
		return 2
	}
	b, err := os.ReadFile(args[0])
	if err != nil {
		fmt.Fprintln(os.Stderr, err)
		return 2
	}
	var cf cexFile
	if err := json.Unmarshal(b, &cf); err != nil {
		fmt.Fprintln(os.Stderr, err)
		return 2
	}
	outDir := filepath.Dir(args[0])
	res := replayCex(&cf, args[0], outDir)
	fmt.Printf("property=%s harness=%s %s %q\nmodel: %s\nfacts: %v\n", cf.Property, cf.Harness, cf.Kind, cf.Label, modelString(cf.Model), cf.Facts)
	if res.Reproduced {
		fmt.Println("REPRODUCED against the real build:", res.Detail)
		return 1
	}
	fmt.Println("NOT REPRODUCED:", res.Detail)
	return 0
}

func cmdSelftest(args []string) int { return 2 }

// nativeSample runs one sampled path natively: "agrees" (no assertion failed, no panic), "skipped" (an assumption
// does not hold natively, e.g. clock dependent), or "differs".
func nativeSample(cf *cexFile, cexPath, outDir string) (string, string) {
	bin, err := buildReplayBinary(cf.Dir, cf.Pkg, outDir)
	if err != nil {
		return "differs", err.Error()
	}
	cmd := exec.Command(bin, "-test.run", "^TestVerifReplay$", "-test.count=1", "-test.timeout=60s")
	cmd.Dir = filepath.Join(repoDir, cf.Pkg)
	cmd.Env = append(os.Environ(), "VERIF_MODEL="+cexPath, "VERIF_HARNESS="+cf.Harness, "VERIF_TIER="+cf.Tier)
	var buf bytes.Buffer
	cmd.Stdout, cmd.Stderr = &buf, &buf
	done := make(chan error, 1)
	cmd.Start()
	go func() { done <- cmd.Wait() }()
	select {
	case <-done:
	case <-time.After(90 * time.Second):
		cmd.Process.Kill()
		return "differs", "native run timed out"
	}
	out := buf.String()
	for _, l := range strings.Split(out, "\n") {
		if strings.HasPrefix(l, "VERIF-REPLAY ") {
			switch {
			case strings.Contains(l, "skipped=\"\"") && strings.Contains(l, "failures=[]") && strings.Contains(l, "panic=<nil>"):
				return "agrees", l
			case !strings.Contains(l, "skipped=\"\""):
				return "skipped", l
			}
			return "differs", l
		}
	}
	return "differs", firstLines(out, "", 4)
}
