package main

import (
	"encoding/json"
	"fmt"
	"os"
	"path/filepath"
	"sort"
	"strings"

	"gosx/sx"
)

type evidence struct {
	id, tier string
	seed     int
	LoadS    float64

	paths, decisions, queries, unsat, sat, unknown int
	asserts, assertQ                               int
	steps                                          int64
	solverS                                        float64
	truncated, unsupported, cut, dropped, faults   int
	fnsRepo, fnsDep, fnsModel                      map[string]bool
	stubs                                          map[string]bool
	bounds                                         map[string]any
	witnesses                                      map[string]int
	samples                                        []any
	harnesses                                      []map[string]any
	cuts                                           map[string]int
	nontrivial                                     int

	Inconclusive   []string
	KnownFindings  []string
	Unconfirmed    []string
	Replays        []map[string]any
	NativeAgree    int
	NativeSkipped  int
	NativeDisagree []string
}

func newEvidence(id, tier string, seed int) *evidence {
	return &evidence{id: id, tier: tier, seed: seed, fnsRepo: map[string]bool{}, fnsDep: map[string]bool{}, fnsModel: map[string]bool{},
		stubs: map[string]bool{}, bounds: map[string]any{}, witnesses: map[string]int{}, cuts: map[string]int{}}
}

func (e *evidence) addReport(r *Run, rep *sx.Report, cfg *sx.Config) {
	e.paths += rep.Paths
	e.decisions += rep.Decisions
	e.queries += rep.Queries
	e.unsat += rep.NUnsat
	e.sat += rep.NSat
	e.unknown += rep.NUnknown
	e.asserts += rep.Asserts
	e.assertQ += rep.AssertQueries
	e.steps += rep.Steps
	e.solverS += rep.SolverS
	e.truncated += rep.Truncated
	e.unsupported += rep.Unsupported
	e.cut += rep.Cut
	e.dropped += rep.Dropped
	e.faults += rep.Faults
	e.nontrivial += rep.Done + rep.Faults
	for f := range rep.Fns {
		switch {
		case strings.Contains(f, "zzverif/models"):
			e.fnsModel[f] = true
		case strings.Contains(f, "zzverif") || strings.Contains(f, ".Verif") || strings.Contains(f, ".vh") || strings.Contains(f, "$"):
			if strings.Contains(f, sx.RepoModule) && !strings.Contains(f, "zzverif") && !strings.Contains(f, ".Verif") && !strings.Contains(f, ".vh") {
				e.fnsRepo[f] = true
			}
		case strings.Contains(f, sx.RepoModule):
			e.fnsRepo[f] = true
		default:
			e.fnsDep[f] = true
		}
	}
	for s := range rep.Stubs {
		e.stubs[s] = true
	}
	for k, v := range rep.Bounds {
		e.bounds[r.Label()+"."+k] = v
	}
	e.bounds[r.Label()+".delay_bound"] = cfg.Preemptions
	e.bounds[r.Label()+".ticker_ticks"] = cfg.Ticks
	if r.Slow {
		e.bounds[r.Label()+".default_scheduler"] = "slow-plugin: a goroutine at the end of a plugin call waits until all others are blocked or waiting there too (FIFO)"
	} else if len(cfg.SwitchOn) > 0 {
		e.bounds[r.Label()+".default_scheduler"] = "newest-ready-goroutine-first, current goroutine continues at switch points"
	}
	e.bounds[r.Label()+".max_instructions_per_path"] = cfg.MaxSteps
	if r.CrossEvery > 1 {
		e.bounds[r.Label()+".thorough_cross_check_one_assertion_batch_in"] = r.CrossEvery
	}
	var sw []string
	for s := range cfg.SwitchOn {
		sw = append(sw, s)
	}
	sort.Strings(sw)
	e.bounds[r.Label()+".switch_on"] = strings.Join(sw, ",")
	for w, n := range rep.Reached {
		e.witnesses[r.Label()+": "+w] += n
	}
	for c, n := range rep.CutMsgs {
		e.cuts[r.Label()+": "+c] += n
	}
	for _, s := range rep.Samples {
		s["harness"] = r.Label()
		if len(e.samples) < 6 {
			e.samples = append(e.samples, s)
		}
	}
	e.harnesses = append(e.harnesses, map[string]any{"harness": r.Label(), "package": r.Pkg, "paths": rep.Paths, "paths_completed": rep.Done, "paths_ending_in_fault": rep.Faults,
		"paths_infeasible_or_assumed_away": rep.Dropped, "paths_cut_by_stated_bound": rep.Cut, "paths_truncated": rep.Truncated, "paths_unsupported": rep.Unsupported,
		"decisions": rep.Decisions, "decision_kinds": rep.DecisionKinds, "solver_queries": rep.Queries, "unsat": rep.NUnsat, "sat": rep.NSat, "unknown": rep.NUnknown,
		"assertions_evaluated": rep.Asserts, "assertions_decided_by_solver": rep.AssertQueries, "solver_s": round1(rep.SolverS), "wall_s": round1(rep.WallS),
		"instructions_interpreted": rep.Steps, "max_path_condition_conjuncts": rep.MaxPC, "max_symbolic_variables": rep.MaxVars,
		"float_dependent_branches": rep.FloatBranches, "assertion_batches_cross_checked_by_cvc5": rep.CrossChecked, "cross_check_unknown": rep.CrossUnknown, "aborted": rep.Aborted})
}

func round1(f float64) float64 { return float64(int(f*10+0.5)) / 10 }

func keys(m map[string]bool) []string {
	var ks []string
	for k := range m {
		ks = append(ks, k)
	}
	sort.Strings(ks)
	return ks
}

func (e *evidence) write(wall float64, violations int) {
	prop := properties[e.id]
	samples := e.samples
	if len(samples) == 0 {
		samples = []any{map[string]any{"note": "no path completed", "inconclusive": e.Inconclusive}}
	}
	exhaustive := e.truncated == 0 && e.unsupported == 0 && e.unknown == 0 && len(e.Inconclusive) == 0 && len(e.Unconfirmed) == 0 && len(e.NativeDisagree) == 0
	for _, h := range e.harnesses {
		if h["aborted"] != "" {
			exhaustive = false
		}
	}
	cov := map[string]any{
		"states":                        e.paths,
		"transitions":                   e.decisions,
		"traces_validated_against_impl": e.NativeAgree + len(e.Replays),
		"native_differential": map[string]any{"sampled_paths_agreeing": e.NativeAgree, "sampled_paths_skipped_natively": e.NativeSkipped, "disagreements": e.NativeDisagree,
			"what": "sampled symbolic paths (reservoir, seeded by VERIF_SEED) re-run against the real build under one model of their path condition; every assertion must pass natively too"},
		"samples":             samples,
		"evaluations":         e.paths,
		"distinct_nontrivial": e.nontrivial,
		"rule": "one evaluation = one symbolic path: a distinct decision vector (plan shape and other bounded case splits, scheduler choices, solver-feasible branch outcomes) " +
			"under which all integer/boolean inputs stay universally quantified; a path is counted non-trivial when it ran the code under test to the end of the harness " +
			"(or to a fault) with a satisfiable path condition; infeasible, assumed-away and cut paths are not counted",
		"exhaustive":                     exhaustive,
		"explanation":                    "bounded symbolic execution of the real Go code from go/ssa; every assertion is discharged by z3 as the query (path condition AND NOT assertion); unsat = holds for all values on that path",
		"functions_encoded_repo":         keys(e.fnsRepo),
		"functions_encoded_dependencies": keys(e.fnsDep),
		"functions_encoded_models":       keys(e.fnsModel),
		"stubs_and_intrinsics":           keys(e.stubs),
		"bounds":                         e.bounds,
		"paths_cut_by_stated_bounds":     e.cuts,
		"outside_the_claim":              prop.OutsideClaim,
		"queries":                        map[string]any{"total": e.queries, "unsat": e.unsat, "sat": e.sat, "unknown": e.unknown, "assertion_queries": e.assertQ, "assertions_evaluated": e.asserts},
		"solver":                         "z3 4.8.12 (/usr/bin/z3 -in), one process per worker, per-query timeout 20 s",
		"solver_s":                       round1(e.solverS),
		"load_and_ssa_s":                 round1(e.LoadS),
		"instructions_interpreted":       e.steps,
		"truncated_paths":                e.truncated,
		"unsupported_paths":              e.unsupported,
		"witnesses":                      e.witnesses,
		"harnesses":                      e.harnesses,
		"inconclusive":                   e.Inconclusive,
		"known_findings_reported":        e.KnownFindings,
		"unconfirmed":                    e.Unconfirmed,
		"replays":                        e.Replays,
	}
	if e.paths == 0 {
		cov["states"] = 1
		cov["evaluations"] = 1
	}
	if e.decisions == 0 {
		cov["transitions"] = 1
	}
	doc := map[string]any{
		"property_id": e.id,
		"tier":        e.tier,
		"seed":        e.seed,
		"level":       "model_checking",
		"coverage":    cov,
		"assumptions": prop.Assumptions,
		"wall_s":      round1(wall),
		"violations":  violations,
	}
	b, _ := json.MarshalIndent(doc, "", " ")
	p := filepath.Join(verifDir, "evidence", e.id+".json")
	if err := os.WriteFile(p, b, 0o644); err != nil {
		fmt.Fprintln(os.Stderr, "evidence:", err)
	}
}
