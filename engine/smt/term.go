// Package smt holds the term language and the solver pipe used by gosx.
//
// Terms are immutable DAG nodes. Sort 0 is Bool, sort n>0 is (_ BitVec n).
// Constructors fold constants eagerly so that only genuinely symbolic
// conditions ever reach the solver.
package smt

import (
	"fmt"
	"strings"
	"sync/atomic"
)

type Term struct {
	ID   int64
	Op   string // "var", "const", "true", "false", or an SMT-LIB operator
	Args []*Term
	Sort int    // 0 = Bool, n = BitVec n
	Name string // var
	Val  uint64 // const (masked to width)
	Ext  int    // extract hi / extend amount
	Ext2 int    // extract lo
}

var idCtr atomic.Int64

func nid() int64 { return idCtr.Add(1) }

var (
	True  = &Term{ID: nid(), Op: "true", Sort: 0}
	False = &Term{ID: nid(), Op: "false", Sort: 0}
)

func mask(w int) uint64 {
	if w >= 64 {
		return ^uint64(0)
	}
	return (uint64(1) << uint(w)) - 1
}

func Bool(b bool) *Term {
	if b {
		return True
	}
	return False
}

func Const(v uint64, w int) *Term {
	return &Term{ID: nid(), Op: "const", Sort: w, Val: v & mask(w)}
}

func Var(name string, w int) *Term {
	return &Term{ID: nid(), Op: "var", Sort: w, Name: name}
}

func (t *Term) IsConst() bool { return t.Op == "const" || t.Op == "true" || t.Op == "false" }
func (t *Term) IsTrue() bool  { return t.Op == "true" }
func (t *Term) IsFalse() bool { return t.Op == "false" }

func sext(v uint64, w int) int64 {
	if w >= 64 {
		return int64(v)
	}
	sh := uint(64 - w)
	return int64(v<<sh) >> sh
}

func Not(a *Term) *Term {
	switch {
	case a.IsTrue():
		return False
	case a.IsFalse():
		return True
	case a.Op == "not":
		return a.Args[0]
	}
	return &Term{ID: nid(), Op: "not", Args: []*Term{a}}
}

func And(a, b *Term) *Term {
	switch {
	case a.IsFalse() || b.IsFalse():
		return False
	case a.IsTrue():
		return b
	case b.IsTrue():
		return a
	case a == b:
		return a
	}
	return &Term{ID: nid(), Op: "and", Args: []*Term{a, b}}
}

func Or(a, b *Term) *Term {
	switch {
	case a.IsTrue() || b.IsTrue():
		return True
	case a.IsFalse():
		return b
	case b.IsFalse():
		return a
	case a == b:
		return a
	}
	return &Term{ID: nid(), Op: "or", Args: []*Term{a, b}}
}

func Implies(a, b *Term) *Term { return Or(Not(a), b) }

func Ite(c, a, b *Term) *Term {
	switch {
	case c.IsTrue():
		return a
	case c.IsFalse():
		return b
	case a == b:
		return a
	}
	if a.Sort == 0 {
		if a.IsTrue() && b.IsFalse() {
			return c
		}
		if a.IsFalse() && b.IsTrue() {
			return Not(c)
		}
	}
	if a.IsConst() && b.IsConst() && a.Sort > 0 && a.Val == b.Val {
		return a
	}
	return &Term{ID: nid(), Op: "ite", Args: []*Term{c, a, b}, Sort: a.Sort}
}

// Eq works on both sorts.
func Eq(a, b *Term) *Term {
	if a == b {
		return True
	}
	if a.Sort != b.Sort {
		panic(fmt.Sprintf("smt.Eq sort mismatch %d vs %d", a.Sort, b.Sort))
	}
	if a.IsConst() && b.IsConst() {
		if a.Sort == 0 {
			return Bool(a.IsTrue() == b.IsTrue())
		}
		return Bool(a.Val == b.Val)
	}
	if a.Sort == 0 {
		if a.IsTrue() {
			return b
		}
		if b.IsTrue() {
			return a
		}
		if a.IsFalse() {
			return Not(b)
		}
		if b.IsFalse() {
			return Not(a)
		}
	}
	return &Term{ID: nid(), Op: "=", Args: []*Term{a, b}}
}

// Cmp builds a bit-vector comparison. op in bvult bvule bvugt bvuge bvslt bvsle bvsgt bvsge.
func Cmp(op string, a, b *Term) *Term {
	if a.Sort != b.Sort {
		panic("smt.Cmp sort mismatch")
	}
	if a.IsConst() && b.IsConst() {
		w := a.Sort
		ua, ub := a.Val, b.Val
		sa, sb := sext(ua, w), sext(ub, w)
		switch op {
		case "bvult":
			return Bool(ua < ub)
		case "bvule":
			return Bool(ua <= ub)
		case "bvugt":
			return Bool(ua > ub)
		case "bvuge":
			return Bool(ua >= ub)
		case "bvslt":
			return Bool(sa < sb)
		case "bvsle":
			return Bool(sa <= sb)
		case "bvsgt":
			return Bool(sa > sb)
		case "bvsge":
			return Bool(sa >= sb)
		}
	}
	if a == b {
		switch op {
		case "bvule", "bvuge", "bvsle", "bvsge":
			return True
		default:
			return False
		}
	}
	return &Term{ID: nid(), Op: op, Args: []*Term{a, b}}
}

// Bin builds a bit-vector binary operation with Go semantics for constants.
// op in bvadd bvsub bvmul bvand bvor bvxor bvshl bvlshr bvashr bvudiv bvurem bvsdiv bvsrem.
// Division by a zero constant is left to the solver (callers guard it).
func Bin(op string, a, b *Term) *Term {
	if a.Sort != b.Sort {
		panic(fmt.Sprintf("smt.Bin %s sort mismatch %d vs %d", op, a.Sort, b.Sort))
	}
	w := a.Sort
	if a.IsConst() && b.IsConst() {
		ua, ub := a.Val, b.Val
		sa, sb := sext(ua, w), sext(ub, w)
		switch op {
		case "bvadd":
			return Const(ua+ub, w)
		case "bvsub":
			return Const(ua-ub, w)
		case "bvmul":
			return Const(ua*ub, w)
		case "bvand":
			return Const(ua&ub, w)
		case "bvor":
			return Const(ua|ub, w)
		case "bvxor":
			return Const(ua^ub, w)
		case "bvshl":
			if ub >= uint64(w) {
				return Const(0, w)
			}
			return Const(ua<<ub, w)
		case "bvlshr":
			if ub >= uint64(w) {
				return Const(0, w)
			}
			return Const(ua>>ub, w)
		case "bvashr":
			if ub >= uint64(w) {
				ub = uint64(w - 1)
			}
			return Const(uint64(sa>>ub), w)
		case "bvudiv":
			if ub != 0 {
				return Const(ua/ub, w)
			}
		case "bvurem":
			if ub != 0 {
				return Const(ua%ub, w)
			}
		case "bvsdiv":
			if sb != 0 {
				if sb == -1 {
					return Const(uint64(-sa), w)
				}
				return Const(uint64(sa/sb), w)
			}
		case "bvsrem":
			if sb != 0 {
				if sb == -1 {
					return Const(0, w)
				}
				return Const(uint64(sa%sb), w)
			}
		}
	}
	// cheap identities
	switch op {
	case "bvadd", "bvor", "bvxor":
		if a.IsConst() && a.Val == 0 {
			return b
		}
		if b.IsConst() && b.Val == 0 {
			return a
		}
	case "bvsub", "bvshl", "bvlshr", "bvashr":
		if b.IsConst() && b.Val == 0 {
			return a
		}
	}
	return &Term{ID: nid(), Op: op, Args: []*Term{a, b}, Sort: w}
}

func Neg(a *Term) *Term { return Bin("bvsub", Const(0, a.Sort), a) }

func BvNot(a *Term) *Term {
	if a.IsConst() {
		return Const(^a.Val, a.Sort)
	}
	return &Term{ID: nid(), Op: "bvnot", Args: []*Term{a}, Sort: a.Sort}
}

// Resize converts a bit-vector of width a.Sort to width w; signed selects sign extension.
func Resize(a *Term, w int, signed bool) *Term {
	if a.Sort == w {
		return a
	}
	if a.IsConst() {
		if w < a.Sort {
			return Const(a.Val, w)
		}
		if signed {
			return Const(uint64(sext(a.Val, a.Sort)), w)
		}
		return Const(a.Val, w)
	}
	if w < a.Sort {
		return &Term{ID: nid(), Op: "extract", Args: []*Term{a}, Sort: w, Ext: w - 1, Ext2: 0}
	}
	op := "zero_extend"
	if signed {
		op = "sign_extend"
	}
	return &Term{ID: nid(), Op: op, Args: []*Term{a}, Sort: w, Ext: w - a.Sort}
}

// Vars collects the variables of t.
func (t *Term) Vars(into map[string]*Term, seen map[int64]bool) {
	if seen[t.ID] {
		return
	}
	seen[t.ID] = true
	if t.Op == "var" {
		into[t.Name] = t
	}
	for _, a := range t.Args {
		a.Vars(into, seen)
	}
}

// Writer serialises terms with sharing: every non-leaf node is emitted once as a define-fun.
type Writer struct {
	defined map[int64]string
	sb      *strings.Builder
	gen     int
}

func NewWriter() *Writer {
	return &Writer{defined: map[int64]string{}, sb: &strings.Builder{}}
}

func (w *Writer) Reset() {
	w.defined = map[int64]string{}
	w.sb.Reset()
	w.gen++
}

func sortStr(s int) string {
	if s == 0 {
		return "Bool"
	}
	return fmt.Sprintf("(_ BitVec %d)", s)
}

func quoteName(n string) string { return "|" + strings.NewReplacer("|", "_", "\\", "_").Replace(n) + "|" }

// Ref returns an expression naming t, emitting whatever declarations/definitions are needed into the buffer.
func (w *Writer) Ref(t *Term) string {
	if s, ok := w.defined[t.ID]; ok {
		return s
	}
	var s string
	switch t.Op {
	case "true", "false":
		return t.Op
	case "const":
		if t.Sort%4 == 0 {
			return fmt.Sprintf("#x%0*x", t.Sort/4, t.Val)
		}
		return fmt.Sprintf("(_ bv%d %d)", t.Val, t.Sort)
	case "var":
		s = quoteName(t.Name)
		fmt.Fprintf(w.sb, "(declare-const %s %s)\n", s, sortStr(t.Sort))
		w.defined[t.ID] = s
		return s
	}
	args := make([]string, len(t.Args))
	for i, a := range t.Args {
		args[i] = w.Ref(a)
	}
	var body string
	switch t.Op {
	case "extract":
		body = fmt.Sprintf("((_ extract %d %d) %s)", t.Ext, t.Ext2, args[0])
	case "zero_extend", "sign_extend":
		body = fmt.Sprintf("((_ %s %d) %s)", t.Op, t.Ext, args[0])
	default:
		body = "(" + t.Op + " " + strings.Join(args, " ") + ")"
	}
	s = fmt.Sprintf("t%d_%d", w.gen, t.ID)
	fmt.Fprintf(w.sb, "(define-fun %s () %s %s)\n", s, sortStr(t.Sort), body)
	w.defined[t.ID] = s
	return s
}

// Take returns and clears the pending text.
func (w *Writer) Take() string {
	s := w.sb.String()
	w.sb.Reset()
	return s
}

func (w *Writer) Emit(s string) { w.sb.WriteString(s) }

// String renders a term as a plain nested expression (for evidence/debug only).
func (t *Term) String() string {
	switch t.Op {
	case "true", "false":
		return t.Op
	case "const":
		return fmt.Sprintf("%d", sext(t.Val, t.Sort))
	case "var":
		return t.Name
	}
	parts := make([]string, len(t.Args))
	for i, a := range t.Args {
		parts[i] = a.String()
	}
	return "(" + t.Op + " " + strings.Join(parts, " ") + ")"
}

// Eval evaluates t under a model (variable name -> value; missing variables read as 0).
// Booleans are 0/1. ok is false when an operator is not supported by the evaluator.
func Eval(t *Term, m map[string]uint64, memo map[int64]uint64) (uint64, bool) {
	if v, ok := memo[t.ID]; ok {
		return v, true
	}
	var res uint64
	switch t.Op {
	case "true":
		res = 1
	case "false":
		res = 0
	case "const":
		res = t.Val
	case "var":
		res = m[t.Name]
		if t.Sort == 0 && res != 0 {
			res = 1
		}
		res &= mask64(t.Sort)
	default:
		args := make([]uint64, len(t.Args))
		for i, a := range t.Args {
			v, ok := Eval(a, m, memo)
			if !ok {
				return 0, false
			}
			args[i] = v
		}
		b2u := func(b bool) uint64 {
			if b {
				return 1
			}
			return 0
		}
		w := 0
		if len(t.Args) > 0 {
			w = t.Args[0].Sort
		}
		switch t.Op {
		case "not":
			res = 1 - args[0]
		case "and":
			res = args[0] & args[1]
		case "or":
			res = args[0] | args[1]
		case "ite":
			if args[0] != 0 {
				res = args[1]
			} else {
				res = args[2]
			}
		case "=":
			res = b2u(args[0] == args[1])
		case "bvult":
			res = b2u(args[0] < args[1])
		case "bvule":
			res = b2u(args[0] <= args[1])
		case "bvugt":
			res = b2u(args[0] > args[1])
		case "bvuge":
			res = b2u(args[0] >= args[1])
		case "bvslt":
			res = b2u(sext(args[0], w) < sext(args[1], w))
		case "bvsle":
			res = b2u(sext(args[0], w) <= sext(args[1], w))
		case "bvsgt":
			res = b2u(sext(args[0], w) > sext(args[1], w))
		case "bvsge":
			res = b2u(sext(args[0], w) >= sext(args[1], w))
		case "bvnot":
			res = ^args[0] & mask64(t.Sort)
		case "extract":
			res = (args[0] >> uint(t.Ext2)) & mask64(t.Sort)
		case "zero_extend":
			res = args[0]
		case "sign_extend":
			res = uint64(sext(args[0], w)) & mask64(t.Sort)
		case "bvadd", "bvsub", "bvmul", "bvand", "bvor", "bvxor", "bvshl", "bvlshr", "bvashr", "bvudiv", "bvurem", "bvsdiv", "bvsrem":
			// reuse the constant folder
			r := Bin(t.Op, Const(args[0], t.Sort), Const(args[1], t.Sort))
			if r.Op != "const" {
				return 0, false // division by zero: solver semantics, do not guess
			}
			res = r.Val
		default:
			return 0, false
		}
	}
	memo[t.ID] = res
	return res, true
}

func mask64(w int) uint64 {
	if w == 0 {
		return 1
	}
	return mask(w)
}
