package smt

import (
	"bufio"
	"fmt"
	"io"
	"os"
	"os/exec"
	"strconv"
	"strings"
	"time"
)

var dumpFile *os.File

func init() {
	if p := os.Getenv("GOSX_DUMP"); p != "" {
		dumpFile, _ = os.Create(p)
	}
}

type Result int

const (
	Unsat Result = iota
	Sat
	Unknown
)

func (r Result) String() string { return [...]string{"unsat", "sat", "unknown"}[r] }

// Solver is one long-lived solver process spoken to over a pipe (SMT-LIB2 text).
type Solver struct {
	Kind      string // "z3", "z3-new", "cvc5"
	cmd       *exec.Cmd
	in        io.WriteCloser
	out       *bufio.Reader
	w         *Writer
	seq       int
	TimeoutMS int

	// stats
	Queries  int
	NSat     int
	NUnsat   int
	NUnknown int
	Errors   []string
	Time     time.Duration
}

func NewSolver(kind string, timeoutMS int) (*Solver, error) {
	var cmd *exec.Cmd
	switch kind {
	case "z3":
		cmd = exec.Command("/usr/bin/z3", "-in")
	case "z3-new":
		cmd = exec.Command("z3-new", "-in")
	case "cvc5":
		cmd = exec.Command("cvc5", "--incremental", "--produce-models", "--lang=smt2", fmt.Sprintf("--tlimit-per=%d", timeoutMS))
	default:
		return nil, fmt.Errorf("unknown solver %q", kind)
	}
	in, err := cmd.StdinPipe()
	if err != nil {
		return nil, err
	}
	out, err := cmd.StdoutPipe()
	if err != nil {
		return nil, err
	}
	cmd.Stderr = cmd.Stdout
	if err := cmd.Start(); err != nil {
		return nil, err
	}
	s := &Solver{Kind: kind, cmd: cmd, in: in, out: bufio.NewReaderSize(out, 1<<16), w: NewWriter(), TimeoutMS: timeoutMS}
	s.Reset()
	return s, nil
}

func (s *Solver) Close() {
	if s.in != nil {
		s.in.Close()
	}
	if s.cmd != nil && s.cmd.Process != nil {
		s.cmd.Process.Kill()
		s.cmd.Wait()
	}
}

// Reset starts a fresh context (one per path).
func (s *Solver) Reset() {
	s.w.Reset()
	s.w.Emit("(reset)\n")
	switch s.Kind {
	case "cvc5":
		s.w.Emit("(set-option :produce-models true)\n(set-logic ALL)\n")
	default:
		fmt.Fprintf(s.w.sb, "(set-option :timeout %d)\n", s.TimeoutMS)
	}
}

// roundTrip sends the pending text plus cmd and returns the output lines up to the sync marker.
func (s *Solver) roundTrip(cmd string) ([]string, error) {
	s.seq++
	marker := fmt.Sprintf("<<sync %d>>", s.seq)
	txt := s.w.Take() + cmd + fmt.Sprintf("(echo \"%s\")\n", marker)
	if dumpFile != nil {
		dumpFile.WriteString(txt)
	}
	if _, err := io.WriteString(s.in, txt); err != nil {
		return nil, err
	}
	var lines []string
	for {
		line, err := s.out.ReadString('\n')
		if err != nil {
			return lines, fmt.Errorf("solver pipe: %v (got %q)", err, strings.Join(lines, "|"))
		}
		line = strings.TrimSpace(line)
		if strings.Trim(line, "\"") == marker {
			return lines, nil
		}
		if line != "" {
			lines = append(lines, line)
		}
	}
}

// Check decides satisfiability of (assumptions AND extra) in one round trip.
// wantModel lists variables whose values are wanted on sat.
func (s *Solver) Check(extra *Term, assumptions []*Term, wantModel []*Term) (Result, map[string]uint64, error) {
	start := time.Now()
	defer func() { s.Time += time.Since(start) }()
	s.Queries++
	var refs []string
	for _, a := range assumptions {
		if a.IsTrue() {
			continue
		}
		refs = append(refs, s.w.Ref(a))
	}
	if extra != nil && !extra.IsTrue() {
		refs = append(refs, s.w.Ref(extra))
	}
	var names []string
	for _, v := range wantModel {
		names = append(names, s.w.Ref(v))
	}
	var sb strings.Builder
	sb.WriteString("(push 1)\n")
	for _, r := range refs {
		sb.WriteString("(assert " + r + ")\n")
	}
	sb.WriteString("(check-sat)\n")
	if len(names) > 0 {
		sb.WriteString("(get-value (" + strings.Join(names, " ") + "))\n")
	}
	sb.WriteString("(pop 1)\n")
	lines, err := s.roundTrip(sb.String())
	if err != nil {
		return Unknown, nil, err
	}
	res := Unknown
	bad := ""
	resIdx := -1
	for i, l := range lines {
		switch {
		case l == "sat":
			res = Sat
			resIdx = i
		case l == "unsat":
			res = Unsat
			resIdx = i
		case l == "unknown":
			res = Unknown
			resIdx = i
		case strings.HasPrefix(l, "(error"):
			if resIdx >= 0 && res != Sat && (strings.Contains(l, "model is not available") || strings.Contains(l, "cannot get value") || strings.Contains(l, "Cannot get")) {
				continue // get-value after unsat/unknown
			}
			bad = l
		}
		if resIdx >= 0 && res == Sat {
			break
		}
	}
	if resIdx < 0 && bad == "" {
		bad = "no answer from solver: " + strings.Join(lines, " | ")
	}
	if bad != "" {
		s.Errors = append(s.Errors, bad)
		res = Unknown
	}
	var model map[string]uint64
	if res == Sat && len(names) > 0 {
		rest := strings.Join(lines[resIdx+1:], " ")
		if strings.Contains(rest, "(error") {
			s.Errors = append(s.Errors, rest)
			res = Unknown
		} else {
			model = parseValues(rest, wantModel)
		}
	}
	switch res {
	case Sat:
		s.NSat++
	case Unsat:
		s.NUnsat++
	default:
		s.NUnknown++
	}
	return res, model, nil
}

// parseValues parses "((name val) (name val) ...)" in order of wantModel.
func parseValues(txt string, vars []*Term) map[string]uint64 {
	m := map[string]uint64{}
	toks := tokenize(txt)
	// Collect value tokens: walk pairs. Structure: ( ( name val ) ( name val ) )
	i := 0
	next := func() string {
		if i < len(toks) {
			t := toks[i]
			i++
			return t
		}
		return ""
	}
	if next() != "(" {
		return m
	}
	vi := 0
	for i < len(toks) && vi < len(vars) {
		if next() != "(" {
			break
		}
		next() // name
		v := next()
		var val uint64
		switch {
		case v == "true":
			val = 1
		case v == "false":
			val = 0
		case strings.HasPrefix(v, "#x"):
			val, _ = strconv.ParseUint(v[2:], 16, 64)
		case strings.HasPrefix(v, "#b"):
			val, _ = strconv.ParseUint(v[2:], 2, 64)
		case v == "(":
			// (_ bvN W)
			next() // _
			bv := next()
			next() // width
			next() // )
			val, _ = strconv.ParseUint(strings.TrimPrefix(bv, "bv"), 10, 64)
		}
		next() // )
		m[vars[vi].Name] = val
		vi++
	}
	return m
}

func tokenize(s string) []string {
	var toks []string
	i := 0
	for i < len(s) {
		c := s[i]
		switch {
		case c == ' ' || c == '\t' || c == '\n' || c == '\r':
			i++
		case c == '(' || c == ')':
			toks = append(toks, string(c))
			i++
		case c == '|':
			j := strings.IndexByte(s[i+1:], '|')
			if j < 0 {
				toks = append(toks, s[i:])
				return toks
			}
			toks = append(toks, s[i:i+j+2])
			i += j + 2
		default:
			j := i
			for j < len(s) && !strings.ContainsRune(" \t\n\r()", rune(s[j])) {
				j++
			}
			toks = append(toks, s[i:j])
			i = j
		}
	}
	return toks
}
