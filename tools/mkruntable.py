#!/usr/bin/env python3
"""Rewrites section 19 of DESIGN.md (between the markers) from `bin/gosx table`."""
import subprocess, os, re
here = os.path.dirname(os.path.dirname(os.path.abspath(__file__)))
tab = subprocess.run([os.path.join(here, 'bin/gosx'), 'table'], capture_output=True, text=True, env=dict(os.environ, VERIF_DIR=here)).stdout
p = os.path.join(here, 'DESIGN.md')
s = open(p).read()
b, e = '<!-- runtable:begin -->', '<!-- runtable:end -->'
block = b + '\n' + tab + e
if b in s:
    s = re.sub(re.escape(b) + '.*?' + re.escape(e), lambda m: block, s, flags=re.S)
else:
    s += '''
## 19. Registered runs (generated from the property table, `tools/mkruntable.py`)

`P` is the delay bound (deviations from the run's default scheduler), ticks the number of ticks every
ticker offers; `@slow` = slow-plugin default scheduler, `@full` = the larger shape bounds. Runs without a
scheduler column have no concurrency (or only the harness's own goroutines, scheduled at blocking points).

''' + block + '\n'
open(p, 'w').write(s)
print(len(tab.splitlines()) - 2, 'runs')
