#!/bin/sh
# tools/verifyseed.sh <id> <demo-dest-relative-path> : confirm a seeded change in its scratch worktree /tmp/wt-<id>
id=$1; dest=$2; wt=/tmp/wt-$id; log=/verif/seeded/$id/verify.log
export GOFLAGS=-mod=mod GOPROXY=off
cd $wt || exit 2
git checkout -q -- . ; rm -f seeded/go.mod
demo=$(ls /verif/seeded/$id/*_test.go | head -1)
mkdir -p $(dirname $dest); cp $demo $dest
pkg=./$(dirname $dest)
{
echo "== seed $id; demo placed at $dest"
echo "-- unmodified tree: demo"; go test -vet=off -count=1 $pkg 2>&1 | grep -v "^{" | tail -3
git apply /verif/seeded/$id/patch.diff && echo "-- patch applied"
echo "-- build"; go build ./... 2>&1 | tail -3
echo "-- demo with patch"; go test -vet=off -count=1 $pkg 2>&1 | grep -v "^{" | grep "^--- FAIL\|^FAIL\|^ok" | head -5
rm -f $dest
echo "-- existing suite with patch"; go test -vet=off -count=1 ./... 2>&1 | grep -v "no test files\|^{" | grep "^ok\|FAIL" | sed 's/\t/ /g'
git checkout -q -- . ; echo "-- reverted"; git status --short | head -3
} > $log 2>&1
echo "done $id"
