#!/bin/sh
# tools/seedtest3.sh <seed-id> <worktree> <demo-dest-dir> <workers> <prop>...
# Round-3 procedure, without ever touching /repo: (1) confirm the seeded change in its scratch worktree
# (tools/verifyseed2.sh: demo passes unmodified; with the patch the tree builds, the suite passes, the demo fails),
# (2) apply the patch in the worktree and run the named checks from a scratch copy of /verif with VERIF_REPO pointing
# at the worktree, (3) revert. Output: seeded/<id>/verify.log, seeded/<id>/check.log
id=$1; wt=$2; dest=$3; workers=$4; shift 4
/verif/tools/verifyseed2.sh $id $wt patch.diff $dest/zz_demo_test.go
vc=/var/tmp/verif-copy-$id
rm -rf $vc; mkdir -p $vc
rsync -a --exclude out --exclude .git --exclude seeded /verif/ $vc/
cd $wt && git checkout -q -- . && git apply /verif/seeded/$id/patch.diff || { echo "patch failed" > /verif/seeded/$id/check.log; exit 2; }
{
for p in "$@"; do
  out=$(cd $vc && VERIF_WORKERS=$workers VERIF_REPO=$wt ./check $p quick 2>&1); rc=$?
  echo "seed=$id check=$p tier=quick exit=$rc $(echo "$out" | grep -c '^VIOLATION') violation line(s)"
  echo "$out" | grep "^VIOLATION\|counterexample\|INCONCLUSIVE\|KNOWN\|UNCONFIRMED" | cut -c1-300 | sort | uniq -c | head -12
done
} > /verif/seeded/$id/check.log 2>&1
cd $wt && git checkout -q -- .
rm -rf $vc
echo "done $id"
