#!/usr/bin/env python3
"""Regenerates /verif/MANIFEST.json from the table below (keeps the file valid and in one place)."""
import json, os
here = os.path.dirname(os.path.dirname(os.path.abspath(__file__)))
props = [json.loads(l)['id'] for l in open(os.path.join(here, 'properties.jsonl'))]

TECH = "bounded symbolic execution of the real Go code from go/ssa (gosx), assertions discharged by z3; counterexamples replayed natively"
NOTE = ("Trusted base: go/ssa lowering, the gosx interpreter (SSA semantics, scheduler, intrinsics), z3 4.8.12, and the stubs listed in the evidence file. "
        "PASS means: for every value of every symbolic input on every path within the stated shape/unrolling/delay bounds. Nothing is claimed outside those bounds.")

claimed = {
 "C19": dict(text="Every plan shape within the bound (<=2 blocks, <=2 sequences, <=2 actions, optional groups, nil vs empty slices) and every early-stop position (a solver variable) is executed symbolically through the real walk.Plan/walkChecks/walkBlock/walkSequence; order, ancestor chains (compared after the walk, so append-aliasing shows) and stop behaviour are asserted against an independent enumeration.",
             ref="6/C19", note=NOTE + " The append growth rule of the Go runtime is re-implemented in the interpreter."),
 "C20": dict(text="Every builder call sequence of bounded length (15 call kinds incl. nil/blank arguments, check type and block arguments symbolic) is run through the real builder and a reference interpreter written from the documentation; after each call Err() presence and identity (sticky first error) are asserted, every history ends in Plan() whose result is compared structurally with the directly constructed plan; any panic is a violation. A second harness starts from every cursor level x stored error x emitted state constructed directly.",
             ref="6/C20", note=NOTE),
 "C05": dict(text="One action is driven through the real actions.Runner state machine (Start/GetPlugin/Execute/exec/End under the real statemachine.Run) with Retries, Timeout, the clock and the verdict of every attempt as solver variables; invocation count, no-call-after-final, one attempt per invocation carrying that invocation's verdict, ordering of times, cancellation on overrun, wrong-type handling and durability before the next attempt are asserted on every path. Run for sequence actions, check actions, and with unbounded Retries.",
             ref="6/C05", note=NOTE),
 "C01": dict(text="The real engine (sm.States from Start to End under the real statemachine.Run, with the real actions state machine) runs every plan shape within the bound against the model plugin (each invocation's verdict a solver variable), the model vault (durable image + write log) and models of the worker pool / sync.Group / retry library; Concurrency and ToleratedFailures are 64-bit solver variables; schedules are explored up to a delay bound at plugin entry/exit. Monitors evaluated at every plugin entry assert declared order of blocks and of a sequence's actions, gating on pre-checks, post-checks after all started sequences, deferred checks last.", ref="6/C01", note=NOTE),
 "C02": dict(text="The real engine (sm.States from Start to End under the real statemachine.Run, with the real actions state machine) runs every plan shape within the bound against the model plugin (each invocation's verdict a solver variable), the model vault (durable image + write log) and models of the worker pool / sync.Group / retry library; Concurrency and ToleratedFailures are 64-bit solver variables; schedules are explored up to a delay bound at plugin entry/exit. At every plugin entry the number of sequences of the block with an action in flight is asserted <= Concurrency (a solver variable: fewer, equal, more sequences than slots are one query) and no other block has a sequence in flight.", ref="6/C02", note=NOTE),
 "C03": dict(text="The real engine (sm.States from Start to End under the real statemachine.Run, with the real actions state machine) runs every plan shape within the bound against the model plugin (each invocation's verdict a solver variable), the model vault (durable image + write log) and models of the worker pool / sync.Group / retry library; Concurrency and ToleratedFailures are 64-bit solver variables; schedules are explored up to a delay bound at plugin entry/exit. On the finished run: failed <= tol+Concurrency, exact stop with Concurrency 1, block Failed iff failed sequences exceed the tolerance (for every 64-bit tolerance incl. negatives), nothing of a later block after a Failed block, plan Failed.", ref="6/C03", note=NOTE),
 "C04": dict(text="The real engine (sm.States from Start to End under the real statemachine.Run, with the real actions state machine) runs every plan shape within the bound against the model plugin (each invocation's verdict a solver variable), the model vault (durable image + write log) and models of the worker pool / sync.Group / retry library; Concurrency and ToleratedFailures are 64-bit solver variables; schedules are explored up to a delay bound at plugin entry/exit. When Run returns, the durable image is asserted terminal, nothing Running, no plugin in flight, statuses mutually consistent, Reason among the stages that really failed and unset iff Completed; then every other goroutine is run to quiescence and any further write or plugin entry is a violation.", ref="6/C04", note=NOTE),
 "C06": dict(text="The real engine (sm.States from Start to End under the real statemachine.Run, with the real actions state machine) runs every plan shape within the bound against the model plugin (each invocation's verdict a solver variable), the model vault (durable image + write log) and models of the worker pool / sync.Group / retry library; Concurrency and ToleratedFailures are 64-bit solver variables; schedules are explored up to a delay bound at plugin entry/exit. Every subset of the check groups at plan and at block level x every pass/fail assignment: nothing else of a scope is invoked after its bypass checks all succeeded, a bypass failure alone never fails the scope, no sequence action after a failed pre-check or failed initial continuous-check run, the scope ends Failed, and the run terminates (deadlock is a fault).", ref="6/C06", note=NOTE),
 "C07": dict(text="The real engine (sm.States from Start to End under the real statemachine.Run, with the real actions state machine) runs every plan shape within the bound against the model plugin (each invocation's verdict a solver variable), the model vault (durable image + write log) and models of the worker pool / sync.Group / retry library; Concurrency and ToleratedFailures are 64-bit solver variables; schedules are explored up to a delay bound at plugin entry/exit. The k-th run of each continuous check (k<=K ticks) fails at every position the schedule bound allows: a failed run fails the scope (Reason ContCheck when it is the only failure); deferred groups run exactly once per entered, non-bypassed scope and their failure fails the scope.", ref="6/C07", note=NOTE),
 "C08": dict(text="The real engine (sm.States from Start to End under the real statemachine.Run, with the real actions state machine) runs every plan shape within the bound against the model plugin (each invocation's verdict a solver variable), the model vault (durable image + write log) and models of the worker pool / sync.Group / retry library; Concurrency and ToleratedFailures are 64-bit solver variables; schedules are explored up to a delay bound at plugin entry/exit. At every plugin entry the action is durably Running with all earlier attempts durable and the previous action durably Completed; on every write a block, sequence or sequence action that was durably Completed/Failed keeps its status; the plan is durably terminal when Run returns.", ref="6/C08", note=NOTE),
 "C09": dict(text='A forward run of the real engine produces its durable write log; the crash index c (0..n) is a solver variable and the durable image after c writes is built as ite chains over the log (only the number of stored attempts is split), so the recovery code itself partitions the crash points it can tell apart. A second engine instance runs the real States.Recovery/fixPlan/fixBlock/fixSeq/fixAction and the normal state chain from that image. Asserted for every c: no plugin call for a sequence action whose success (Completed status or error-free finished attempt) or failure was durable, none inside a durably Completed/Failed sequence or block, durable successful attempts are kept.', ref="6/C09", note=NOTE),
 "C10": dict(text="Same crash/recovery construction as C09. Asserted for every crash index: the recovering run terminates (deadlock and step budget are faults), C04's consistency predicate holds on the final durable image, deferred groups of entered non-bypassed scopes have run, nothing executes afterwards, and with one verdict variable per action shared by both processes the recovered plan's status equals the uninterrupted one. Four genuine recovery defects found this way are listed in known_findings.json (F-10a..d) and reported as KNOWN-FINDING.", ref="6/C10", note=NOTE),
 "C11": dict(text="Arbitrary store content (plan and action status any 64-bit value, symbolic timestamps on plan and a nested object), symbolic maximum age and symbolic clock: the real recover state machine (start/fetchPlans/filterPlans/agedOut), lastUpdate, runningToFailed, Plans.recover and runPlan run with a recording runner. Per plan the solver decides: not Running => no write, not resumed; Running and last+max < now => closed Failed/ExceedRecovery, nothing left Running in storage, not resumed, no plugin; otherwise (boundary included) resumed exactly once and untouched. A second harness runs the real execute.New with recovery on/off.",
             ref="6/C11", note=NOTE),
 "C12": dict(text="Real execute.Plans (New/Start/validateStartState/runPlan/Wait) and real coercion.Workstream with the real engine behind them: two Start(id) calls race (switch points at the vault Read and at lock operations, delay-bounded) and follow each other back to back; SubmitTime, maxSubmit and the clock are solver variables for the staleness clause (boundary included); every API history of bounded length over known and unknown ids is run. Asserted: at most one execution per plan, rejected Starts are errors without side effects, any panic, log.Fatalf or deadlock is a violation.",
             ref="6/C12", note=NOTE),
 "C16": dict(text="The real Workstream.Submit (populateRegistry, requestDefaults, workflow.Validate with every validate method and addOrErrKey, Defaults, Create) and Start/validateStartState run on a valid plan of every shape within the bound with one mutation (two in thorough) from 17 classes placed at every applicable object; Timeout/Retries/Concurrency are solver variables. Asserted: Submit returns nil iff the independent well-formedness predicate holds; a rejection leaves nothing in storage and never panics; an accepted plan has pairwise distinct v7 ids, pristine NotStarted states, a submit time, Concurrency >= 1, timeout >= 5s, Retries >= 0; Start refuses exactly the plans whose check action names a non-check plugin.",
             ref="6/C16", note=NOTE),
}
NA = {
 "C17": "quantifies over Go type shapes and the code is reflection from top to bottom (reflect, html/template, deep.MustCopy); go/ssa gives no semantics for reflect and types are not SMT values, so a solver would decide nothing (DESIGN.md section 7)",
}
checks = []
for p in props:
    if p in claimed:
        c = claimed[p]
        checks.append({
            "property_id": p,
            "quick_cmd": f"./check {p} quick",
            "thorough_cmd": f"./check {p} thorough",
            "evidence_file": f"evidence/{p}.json",
            "replay_cmd_template": "./check --replay {path}",
            "engine": "gosx",
            "level_claimed": {"category": "model_checking", "text": c["text"], "design_ref": c["ref"]},
            "level_note": c["note"],
            "technique": TECH,
        })
na = []
for p in props:
    if p not in claimed:
        na.append({"property_id": p, "reason": NA.get(p, "check not built yet (framework under construction); planned encoding in DESIGN.md section 6")})
m = {
 "version": 1,
 "setup_cmd": "cd engine && GOFLAGS=-mod=mod GOPROXY=off go build -o ../bin/gosx ./cmd/gosx",
 "hooks": {"guard": "verif", "enable": "none needed: harnesses, models and the harness API are injected through go/packages overlays (symbolic run) and `go test -overlay` (native replay); /repo is never modified by a check",
           "baseline_off_cmd": "cd /repo && go test -json -vet=off -count=1 -timeout 25m ./...", "source_commits": [], "add_only": True},
 "engines": [{"name": "gosx", "path": "engine", "serves_properties": sorted(claimed), "kind_free_text": "bounded symbolic executor for Go SSA (go/ssa, x/tools v0.50.0) with an SMT back end (z3 over a pipe), written for this task"}],
 "checks": checks,
 "notes": "See DESIGN.md. A property moves from not_applicable to checks when its quick command runs clean on the unchanged tree.",
 "not_applicable": na,
}
json.dump(m, open(os.path.join(here, 'MANIFEST.json'), 'w'), indent=1)
print("claimed:", sorted(claimed))
