#!/bin/sh
# tools/verifyseed2.sh <seed-dir-name> <worktree> <patch-file-name> <demo-dest-relative-path>
# confirms a seeded change in its scratch worktree: demo passes unmodified; with the patch: builds, suite passes, demo fails
id=$1; wt=$2; patch=/verif/seeded/$id/$3; dest=$4; log=/verif/seeded/$id/verify.log
export GOFLAGS=-mod=mod GOPROXY=off
cd $wt || exit 2
git checkout -q -- . ; rm -rf seeded
demo=$(ls /verif/seeded/$id/*_test.go | head -1)
mkdir -p $(dirname $dest); cp $demo $dest
pkg=./$(dirname $dest)
{
echo "== seed $id; worktree at $(git rev-parse --short HEAD); demo placed at $dest"
echo "-- unmodified tree: demo"; go test -vet=off -count=1 $pkg 2>&1 | grep -v "^{" | tail -3
git apply $patch && echo "-- patch applied ($3)"
echo "-- build"; go build ./... 2>&1 | tail -3
echo "-- demo with patch"; go test -vet=off -count=1 $pkg 2>&1 | grep -v "^{" | grep "^--- FAIL\|^FAIL\|^ok" | head -5
rm -f $dest; rmdir $(dirname $dest) 2>/dev/null
echo "-- existing suite with patch"; go test -vet=off -count=1 ./... 2>&1 | grep -v "no test files\|^{" | grep "^ok\|FAIL" | sed 's/\t/ /g'
git checkout -q -- . ; echo "-- reverted"; git status --short | head -3
} > $log 2>&1
echo "done $id"
