#!/bin/sh
# tools/seedtest.sh <seed-id> <tier> <prop>...  : apply seeded/<id>/patch.diff to /repo, run checks, undo
id=$1; tier=$2; shift 2
cd /repo && git apply /verif/seeded/$id/patch.diff || { echo "patch failed"; exit 2; }
cd /verif
for p in "$@"; do
  out=$(./check $p $tier 2>&1); rc=$?
  echo "seed=$id check=$p tier=$tier exit=$rc $(echo "$out" | grep -c '^VIOLATION') violation line(s)"
  echo "$out" | grep "^VIOLATION\|counterexample\|INCONCLUSIVE\|KNOWN" | cut -c1-260 | sort | uniq -c | head -8
done
git -C /repo checkout -- . ; git -C /repo status --short
