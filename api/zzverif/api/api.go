// Package api is the harness API of gosx (see /verif/DESIGN.md, appendix A).
//
// In symbolic mode every function here is intercepted by the interpreter by name and its body is
// never run. The bodies below are the *native* meaning, used when a harness is compiled by the Go
// toolchain to replay a counterexample (VERIF_MODEL=<cex.json>) against the real build.
package api

import (
	"context"
	"encoding/json"
	"fmt"
	"os"
	"reflect"
	"sync"
	"time"

	"github.com/brunoga/deep"
)

type cex struct {
	Model   map[string]int64  `json:"model"`
	Facts   map[string]string `json:"facts"`
	Choices map[string]int64  `json:"choices"`
	Trace   []string          `json:"trace"`
	Label   string            `json:"label"`
	Kind    string            `json:"kind"`
}

var (
	mu       sync.Mutex
	loaded   bool
	cx       cex
	seq      = map[string]int{}
	Failures []string
	Reached  []string
	base     time.Time
	baseSet  bool
	yieldPos int
	diverged     bool
	lastProgress time.Time
)

func load() {
	if loaded {
		return
	}
	loaded = true
	p := os.Getenv("VERIF_MODEL")
	if p == "" {
		return
	}
	b, err := os.ReadFile(p)
	if err != nil {
		panic("VERIF_MODEL: " + err.Error())
	}
	if err := json.Unmarshal(b, &cx); err != nil {
		panic("VERIF_MODEL: " + err.Error())
	}
}

func key(name string) string {
	n := seq[name]
	seq[name] = n + 1
	if n == 0 {
		return name
	}
	return fmt.Sprintf("%s#%d", name, n)
}

func val(name string) int64 {
	mu.Lock()
	defer mu.Unlock()
	load()
	return cx.Model[key(name)]
}

// Symbolic reports whether the harness runs inside gosx.
func Symbolic() bool { return false }

func NondetInt(name string) int        { return int(val(name)) }
func NondetInt64(name string) int64    { return val(name) }
func NondetInt32(name string) int32    { return int32(val(name)) }
func NondetUint8(name string) uint8    { return uint8(val(name)) }
func NondetBool(name string) bool      { return val(name) != 0 }
func NondetDuration(name string) time.Duration { return time.Duration(val(name)) }

// NondetTime returns an arbitrary instant (unix nanoseconds from the model).
func NondetTime(name string) time.Time {
	ns := val(name)
	if ns == -6795364578871345152 {
		return time.Time{}
	}
	return time.Unix(0, ns).UTC()
}

// ClockTime returns an instant expressed on the symbolic clock's scale. Natively it is shifted so that
// the model's first clock reading ("now") coincides with the real clock when the harness started.
func ClockTime(name string) time.Time {
	ns := val(name)
	mu.Lock()
	defer mu.Unlock()
	if !baseSet {
		base = time.Now()
		baseSet = true
	}
	if ns == -6795364578871345152 {
		return time.Time{}
	}
	ref := cx.Model["now"]
	return base.Add(time.Duration(ns - ref)).UTC()
}

func Choose(name string, n int) int {
	mu.Lock()
	defer mu.Unlock()
	load()
	v := int(cx.Choices[key("choose:"+name)])
	if v < 0 || v >= n {
		return 0
	}
	return v
}

type assumeFailed struct{ what string }

func Assume(c bool) {
	if !c {
		panic(assumeFailed{"assumption does not hold under the replayed model"})
	}
}

func Assert(c bool, label string) {
	if !c {
		mu.Lock()
		Failures = append(Failures, label)
		mu.Unlock()
	}
}

func Reach(label string) {
	mu.Lock()
	Reached = append(Reached, label)
	mu.Unlock()
}

// Fact records a shape fact of the current path (used to key known findings).
func Fact(key, val string) {}

// Event appends to the event trace (no scheduling effect).
func Event(tag string) {}

// Yield is a scheduling point in symbolic mode. Natively, when the counterexample carries an event
// trace, it blocks until the replay reaches this tag in the recorded order. Events that the trace does
// not contain are held back until the trace has been consumed. If nothing moves for a while the replay
// is declared diverged and everything runs free.
func Yield(tag string) {
	mu.Lock()
	load()
	tr := cx.Trace
	if len(tr) == 0 || diverged {
		mu.Unlock()
		return
	}
	if lastProgress.IsZero() {
		lastProgress = time.Now()
	}
	mu.Unlock()
	want := "y:" + tag
	for {
		mu.Lock()
		if diverged {
			mu.Unlock()
			return
		}
		for yieldPos < len(tr) && (len(tr[yieldPos]) < 2 || tr[yieldPos][:2] != "y:") {
			yieldPos++
		}
		if yieldPos >= len(tr) {
			mu.Unlock()
			return
		}
		if tr[yieldPos] == want {
			yieldPos++
			lastProgress = time.Now()
			mu.Unlock()
			return
		}
		if time.Since(lastProgress) > 500*time.Millisecond {
			diverged = true
			mu.Unlock()
			return
		}
		mu.Unlock()
		time.Sleep(100 * time.Microsecond)
	}
}

// Quiesce lets every other goroutine run until nothing can move.
func Quiesce() { time.Sleep(150 * time.Millisecond) }

// Spawn starts f on a new goroutine.
func Spawn(f func()) { go f() }

func IteInt(c bool, a, b int) int {
	if c {
		return a
	}
	return b
}
func IteInt64(c bool, a, b int64) int64 {
	if c {
		return a
	}
	return b
}
func IteBool(c bool, a, b bool) bool {
	if c {
		return a
	}
	return b
}
func IteTime(c bool, a, b time.Time) time.Time {
	if c {
		return a
	}
	return b
}

// Concretize splits a symbolic integer into its feasible concrete values within [lo,hi].
func Concretize(x, lo, hi int) int { return x }

// Bound is a tier-dependent harness parameter.
func Bound(name string, quick, thorough int) int {
	if os.Getenv("VERIF_TIER") == "thorough" {
		return thorough
	}
	return quick
}

// ExpireDeadline lets the deadline of ctx pass. Natively the real deadline is awaited.
func ExpireDeadline(ctx context.Context) { <-ctx.Done() }

// NoAlias fails label if a and b share mutable memory (pointer, slice backing array, map).
func NoAlias(a, b any, label string) {
	seen := map[uintptr]bool{}
	collect(reflect.ValueOf(a), seen, map[uintptr]bool{}, true)
	shared := false
	check(reflect.ValueOf(b), seen, map[uintptr]bool{}, &shared)
	if shared {
		Assert(false, label)
	}
}

func collect(v reflect.Value, into, visited map[uintptr]bool, _ bool) {
	if !v.IsValid() {
		return
	}
	switch v.Kind() {
	case reflect.Ptr:
		if v.IsNil() {
			return
		}
		p := v.Pointer()
		if visited[p] {
			return
		}
		visited[p] = true
		if v.Elem().Type().Size() > 0 {
			into[p] = true
		}
		collect(v.Elem(), into, visited, true)
	case reflect.Interface:
		if !v.IsNil() {
			collect(v.Elem(), into, visited, true)
		}
	case reflect.Struct:
		if v.Type().PkgPath() == "time" {
			return
		}
		for i := 0; i < v.NumField(); i++ {
			collect(v.Field(i), into, visited, true)
		}
	case reflect.Slice:
		if v.IsNil() || v.Cap() == 0 {
			return
		}
		into[v.Pointer()] = true
		for i := 0; i < v.Len(); i++ {
			collect(v.Index(i), into, visited, true)
		}
	case reflect.Array:
		for i := 0; i < v.Len(); i++ {
			collect(v.Index(i), into, visited, true)
		}
	case reflect.Map:
		if v.IsNil() {
			return
		}
		into[v.Pointer()] = true
		it := v.MapRange()
		for it.Next() {
			collect(it.Value(), into, visited, true)
		}
	}
}

func check(v reflect.Value, in, visited map[uintptr]bool, shared *bool) {
	if !v.IsValid() || *shared {
		return
	}
	switch v.Kind() {
	case reflect.Ptr:
		if v.IsNil() {
			return
		}
		p := v.Pointer()
		if visited[p] {
			return
		}
		visited[p] = true
		if in[p] && v.Elem().Type().Size() > 0 {
			*shared = true
			return
		}
		check(v.Elem(), in, visited, shared)
	case reflect.Interface:
		if !v.IsNil() {
			check(v.Elem(), in, visited, shared)
		}
	case reflect.Struct:
		if v.Type().PkgPath() == "time" {
			return
		}
		for i := 0; i < v.NumField(); i++ {
			check(v.Field(i), in, visited, shared)
		}
	case reflect.Slice:
		if v.IsNil() || v.Cap() == 0 {
			return
		}
		if in[v.Pointer()] {
			*shared = true
			return
		}
		for i := 0; i < v.Len(); i++ {
			check(v.Index(i), in, visited, shared)
		}
	case reflect.Array:
		for i := 0; i < v.Len(); i++ {
			check(v.Index(i), in, visited, shared)
		}
	case reflect.Map:
		if v.IsNil() {
			return
		}
		if in[v.Pointer()] {
			*shared = true
			return
		}
		it := v.MapRange()
		for it.Next() {
			check(it.Value(), in, visited, shared)
		}
	}
}

// Run executes one harness natively and reports what it observed. Used by the generated replay test.
func Run(h func()) (failures []string, skipped string, panicked any) {
	defer func() {
		if r := recover(); r != nil {
			if a, ok := r.(assumeFailed); ok {
				skipped = a.what
			} else {
				panicked = r
			}
		}
		mu.Lock()
		failures = append([]string{}, Failures...)
		mu.Unlock()
	}()
	h()
	return
}

// Cut ends the current symbolic path at a stated bound (reported in evidence, never counted as a pass of
// anything beyond it). Natively it ends the harness.
func Cut(label string) { panic(assumeFailed{"cut: " + label}) }

// DeepCopy copies the object graph of v (model of deep.MustCopy and of a vault's Read).
func DeepCopy[T any](v T) T { return deep.MustCopy(v) }

// LogicalClock switches the symbolic clock to a logical one: successive readings are concrete and strictly
// increasing. Used where timestamps matter only through their order. Natively a no-op (the real clock runs).
func LogicalClock() {}

// ClockReading returns the k-th reading (0-based) the code under test has taken of the clock so far.
// Natively the real clock cannot be observed from outside: the instant the replay started stands in for it.
func ClockReading(k int) time.Time {
	mu.Lock()
	defer mu.Unlock()
	if !baseSet {
		base = time.Now()
		baseSet = true
	}
	return base
}

// ClockReadings is the number of clock readings taken so far (0 natively).
func ClockReadings() int { return 0 }

// SQL row-store observation points (symbolic mode only; natively they report "nothing known").
func SQLFaults(on bool)                             {}
func SQLRowCount(table, column, text string) int    { return -1 }
func SQLWritesOutsideTx() int                       { return 0 }
func SQLOpenTx() int                                { return 0 }
func SQLConnTaken() bool                            { return false }

// SQLInjected is the number of failures the row store injected so far (0 natively).
func SQLInjected() int { return 0 }
