package models

import (
	"zombiezen.com/go/sqlite"
	"zombiezen.com/go/sqlite/sqlitex"
)

// The functions below are implemented inside the interpreter (row store, engine/sx/sqlstore.go).
// Natively the models package is never called; the bodies only make it compile.
func sqlBindArg(stmt *sqlite.Stmt, i int, v any) error      { panic("symbolic only") }
func sqlBindNamed(stmt *sqlite.Stmt, name string, v any) error { panic("symbolic only") }
func sqlMissing(stmt *sqlite.Stmt) error                     { panic("symbolic only") }
func sqlBegin(conn *sqlite.Conn)                              { panic("symbolic only") }
func sqlEnd(conn *sqlite.Conn, commit bool)                   { panic("symbolic only") }

// SqlitexExecute models sqlitex.Execute / ExecuteTransient: prepare, bind Args positionally and Named by
// name (sqlitex's own value mapping), fail on a missing argument, then step through the rows calling ResultFunc.
func SqlitexExecute(conn *sqlite.Conn, query string, opts *sqlitex.ExecOptions) error {
	stmt, err := conn.Prepare(query)
	if err != nil {
		return err
	}
	if opts != nil {
		for i, a := range opts.Args {
			if err := sqlBindArg(stmt, i+1, a); err != nil {
				return err
			}
		}
		for name, a := range opts.Named {
			if err := sqlBindNamed(stmt, name, a); err != nil {
				return err
			}
		}
	}
	if err := sqlMissing(stmt); err != nil {
		return err
	}
	for {
		hasRow, err := stmt.Step()
		if err != nil {
			return err
		}
		if !hasRow {
			break
		}
		if opts != nil && opts.ResultFunc != nil {
			if err := opts.ResultFunc(stmt); err != nil {
				return err
			}
		}
	}
	return nil
}

// SqlitexTransaction models sqlitex.Transaction: a snapshot that the returned function commits when *errp is nil
// and restores otherwise.
func SqlitexTransaction(conn *sqlite.Conn) func(*error) {
	sqlBegin(conn)
	return func(errp *error) {
		sqlEnd(conn, *errp == nil)
	}
}
