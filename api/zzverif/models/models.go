// Package models holds Go-source models of third-party functions (DESIGN.md section 4.3).
// They are interpreted symbolically in place of the real callee (substitution table in
// engine/sx/models.go); natively the real function runs.
package models

import (
	"context"
	"errors"
	"fmt"
	"sync"

	"github.com/Azure/retry/exponential"
	"github.com/element-of-surprise/coercion/internal/zzverif/api"
	bsync "github.com/gostdlib/base/concurrency/sync"
	"github.com/gostdlib/base/concurrency/worker"
)

// PoolSubmit models (*worker.Pool).Submit: run f on its own goroutine. When ctx is already done the real
// pool may refuse (its select between ctx.Done() and the queue is a coin flip): both outcomes are explored.
func PoolSubmit(p *worker.Pool, ctx context.Context, f func()) error {
	if f == nil {
		return fmt.Errorf("worker.Pool: cannot submit a runner that is nil")
	}
	if ctx.Err() != nil && api.Choose("submit_refused", 2) == 1 {
		return context.Cause(ctx)
	}
	api.Spawn(f)
	return nil
}

// MLimited models worker.Limited: a counting semaphore in front of the pool.
type MLimited struct {
	p     *worker.Pool
	wg    sync.WaitGroup
	limit chan struct{}
}

func PoolLimited(p *worker.Pool, size int) *MLimited {
	if size < 1 {
		panic("cannot have a Limited Pool with size < 1")
	}
	return &MLimited{p: p, limit: make(chan struct{}, size)}
}

func (l *MLimited) Submit(ctx context.Context, f func()) error {
	select {
	case <-ctx.Done():
		return context.Cause(ctx)
	case l.limit <- struct{}{}:
	}
	l.wg.Add(1)
	wrap := func() {
		defer func() {
			<-l.limit
			l.wg.Done()
		}()
		f()
	}
	return PoolSubmit(l.p, ctx, wrap)
}

func (l *MLimited) Wait() { l.wg.Wait() }

func LimitedGroup(l *MLimited) bsync.Group { return bsync.Group{Pool: l} }

func PoolGroup(p *worker.Pool) bsync.Group { return bsync.Group{Pool: p} }

// mgroup is the state of one sync.Group between its first Go and its Wait.
type mgroup struct {
	wg   sync.WaitGroup
	mu   sync.Mutex
	errs []error
}

var (
	groupsMu sync.Mutex
	groups   = map[*bsync.Group]*mgroup{}
)

func grp(w *bsync.Group) *mgroup {
	groupsMu.Lock()
	defer groupsMu.Unlock()
	m := groups[w]
	if m == nil {
		m = &mgroup{}
		groups[w] = m
	}
	return m
}

// GroupGo models (*sync.Group).Go.
func GroupGo(w *bsync.Group, ctx context.Context, f func(ctx context.Context) error, options ...bsync.GoOption) error {
	if ctx.Err() != nil {
		return context.Cause(ctx)
	}
	m := grp(w)
	m.wg.Add(1)
	run := func() {
		defer m.wg.Done()
		if err := context.Cause(ctx); err != nil {
			m.mu.Lock()
			m.errs = append(m.errs, err)
			m.mu.Unlock()
			return
		}
		if err := f(ctx); err != nil {
			m.mu.Lock()
			m.errs = append(m.errs, err)
			m.mu.Unlock()
			if w.CancelOnErr != nil {
				w.CancelOnErr()
			}
		}
	}
	if w.Pool == nil {
		api.Spawn(run)
		return nil
	}
	if err := w.Pool.Submit(ctx, run); err != nil {
		// the real Group leaves its WaitGroup incremented when the pool refuses; so does the model
		return err
	}
	return nil
}

// GroupWait models (*sync.Group).Wait: join everything started, non-nil iff any recorded error.
func GroupWait(w *bsync.Group, ctx context.Context) error {
	m := grp(w)
	m.wg.Wait()
	if w.CancelOnErr != nil {
		w.CancelOnErr()
		w.CancelOnErr = nil
	}
	groupsMu.Lock()
	delete(groups, w)
	groupsMu.Unlock()
	if len(m.errs) == 0 {
		return nil
	}
	return errors.Join(m.errs...)
}

// ExpNew models exponential.New: policy validation is the registry's job, interval arithmetic is dropped.
func ExpNew(options ...exponential.Option) (*exponential.Backoff, error) {
	return &exponential.Backoff{}, nil
}

// WithPolicy models exponential.WithPolicy.
func WithPolicy(policy exponential.Policy) exponential.Option { return nil }

// BackoffRetry models (*exponential.Backoff).Retry for a policy without MaxAttempts and without transformers:
// retry until success, a permanent error, or a done context. Waiting between attempts is a scheduling point.
func BackoffRetry(b *exponential.Backoff, ctx context.Context, op exponential.Op, options ...exponential.RetryOption) error {
	r := exponential.Record{Attempt: 1}
	err := op(ctx, r)
	if err == nil {
		return nil
	}
	unroll := api.Bound("retry_unroll", 4, 5)
	for {
		if errors.Is(err, exponential.ErrPermanent) {
			return err
		}
		if ctx.Err() != nil {
			return fmt.Errorf("r.Err: %w", exponential.ErrRetryCanceled)
		}
		if r.Attempt >= unroll {
			api.Cut("retry loop unrolled " + fmt.Sprint(unroll) + " times")
		}
		api.Yield("backoff")
		r.Attempt++
		err = op(ctx, r)
		if err == nil {
			return nil
		}
	}
}

// ---- sync.Pool ----
// A pool is modelled as a LIFO free list: Get returns the most recently Put value, or New() when the list is empty.
// (The runtime may also drop pooled values at any time, which only ever turns a reuse into a New; the reuse is the
// behaviour worth exploring.)
type poolState struct {
	p     *sync.Pool
	items []any
}

var pools []*poolState

func poolOf(p *sync.Pool) *poolState {
	for _, s := range pools {
		if s.p == p {
			return s
		}
	}
	s := &poolState{p: p}
	pools = append(pools, s)
	return s
}

func SyncPoolGet(p *sync.Pool) any {
	s := poolOf(p)
	if n := len(s.items); n > 0 {
		x := s.items[n-1]
		s.items = s.items[:n-1]
		return x
	}
	if p.New != nil {
		return p.New()
	}
	return nil
}

func SyncPoolPut(p *sync.Pool, x any) {
	if x == nil {
		return
	}
	s := poolOf(p)
	s.items = append(s.items, x)
}
