// Package models holds Go-source models of third-party functions (DESIGN.md section 4.3).
// They are interpreted symbolically in place of the real callee; natively the real function runs.
package models
