// Package kit holds the harness-level environment shared by the engine properties:
// the model plugin, the model vault (durable image + write log) and the event monitor
// (DESIGN.md sections 4.1 and 4.2). It is ordinary Go: interpreted symbolically by gosx,
// compiled as-is for native replay.
package kit

import (
	"fmt"
	"sync"
	"time"

	"github.com/element-of-surprise/coercion/internal/private"
	"github.com/element-of-surprise/coercion/internal/zzverif/api"
	"github.com/element-of-surprise/coercion/plugins"
	"github.com/element-of-surprise/coercion/plugins/registry"
	"github.com/element-of-surprise/coercion/workflow"
	wctx "github.com/element-of-surprise/coercion/workflow/context"
	"github.com/element-of-surprise/coercion/workflow/storage"
	"github.com/element-of-surprise/coercion/workflow/utils/walk"
	"github.com/google/uuid"
	"github.com/gostdlib/base/context"
	"github.com/gostdlib/base/retry/exponential"
)

// Verdicts of one plugin invocation.
const (
	VOk = iota
	VPermanent
	VTransient
	VWrongType
	VOverrun
)

var VerdictNames = [...]string{"ok", "permanent", "transient", "wrongtype", "overrun"}

// Verdict modes.
const (
	ModeOkFail    = iota // ok or permanent error, one variable per invocation
	ModeFull             // all five verdicts, one variable per invocation
	ModePerAction        // ok or permanent error, one boolean per action shared by every invocation and run
)

// Req and Resp are the model plugin's request and response types: a scalar plus inner references (slice, pointer),
// so that copies can be checked for shared memory.
type Req struct {
	N     int
	Items []int
	Ptr   *int
}
type Resp struct {
	N     int
	Items []int
}
type WrongResp struct{ S string }

// Call is one plugin invocation as seen by the monitor.
type Call struct {
	Key     string
	N       int // 1-based invocation number for this action (this process)
	Verdict int
	Done    bool
	CtxErr  bool // the attempt's context was done when the plugin returned (overrun only)
}

// Info is what the monitor knows about an action of the plan under test.
type Info struct {
	Key    string
	Action *workflow.Action
	Seq    *workflow.Sequence // nil for check actions
	Checks *workflow.Checks   // nil for sequence actions
	Block  *workflow.Block    // nil at plan level
	Group  int                // shape.G* index for check actions, -1 otherwise
	BlockI int
	SeqI   int
	ActI   int
}

// Mon records plugin events and lets a harness hook monitors on them.
type Mon struct {
	mu       sync.Mutex
	Mode     int
	ByID     map[uuid.UUID]*Info
	Calls    map[string]int
	Inflight map[string]int
	Log      []*Call
	Fail     map[string]bool // ModePerAction: verdict per action key (set once)
	failSet  map[string]bool
	OnEnter  func(in *Info, c *Call)
	OnExit   func(in *Info, c *Call)
	Vault    *Vault
	Tag      string // prefix for nondet names (distinguishes processes in crash harnesses)
	Fixed    map[string]int // optional: verdict forced per "key:n"
}

func NewMon(mode int) *Mon {
	return &Mon{Mode: mode, ByID: map[uuid.UUID]*Info{}, Calls: map[string]int{}, Inflight: map[string]int{}, Fail: map[string]bool{}, failSet: map[string]bool{}}
}

// SharePerAction makes m use the same per-action verdicts as o (ModePerAction across processes).
func (m *Mon) SharePerAction(o *Mon) {
	m.Fail = o.Fail
	m.failSet = o.failSet
}

// Track registers every action of p under its name.
func (m *Mon) Track(p *workflow.Plan) {
	bi, si := -1, -1
	for it := range walk.Plan(p) {
		switch it.Value.Type() {
		case workflow.OTBlock:
			bi++
			si = -1
		case workflow.OTSequence:
			si++
		case workflow.OTAction:
			a := it.Action()
			in := &Info{Key: a.Name, Action: a, Group: -1, BlockI: -1, SeqI: -1}
			for _, o := range it.Chain {
				switch x := o.(type) {
				case *workflow.Block:
					in.Block = x
					in.BlockI = bi
				case *workflow.Sequence:
					in.Seq = x
					in.SeqI = si
				case *workflow.Checks:
					in.Checks = x
				}
			}
			if in.Checks != nil {
				in.Group = groupIndex(p, in.Block, in.Checks)
			}
			m.ByID[a.ID] = in
		}
	}
}

func groupIndex(p *workflow.Plan, b *workflow.Block, c *workflow.Checks) int {
	var g [5]*workflow.Checks
	if b != nil {
		g = [5]*workflow.Checks{b.BypassChecks, b.PreChecks, b.ContChecks, b.PostChecks, b.DeferredChecks}
	} else {
		g = [5]*workflow.Checks{p.BypassChecks, p.PreChecks, p.ContChecks, p.PostChecks, p.DeferredChecks}
	}
	for i := range g {
		if g[i] == c {
			return i
		}
	}
	return -1
}

// InflightTotal is the number of plugin invocations that have entered and not finished.
func (m *Mon) InflightTotal() int {
	n := 0
	for _, v := range m.Inflight {
		n += v
	}
	return n
}

func (m *Mon) verdict(key string, n int) int {
	if v, ok := m.Fixed[fmt.Sprintf("%s:%d", key, n)]; ok {
		return v
	}
	switch m.Mode {
	case ModePerAction:
		if !m.failSet[key] {
			m.failSet[key] = true
			m.Fail[key] = api.NondetBool("fail:" + key)
		}
		if m.Fail[key] {
			return VPermanent
		}
		return VOk
	case ModeFull:
		v := api.NondetInt(fmt.Sprintf("%sv:%s:%d", m.Tag, key, n))
		api.Assume(v >= VOk && v <= VOverrun)
		// resolve the symbolic verdict into its concrete class (a solver-guided split)
		switch {
		case v == VOk:
			return VOk
		case v == VPermanent:
			return VPermanent
		case v == VTransient:
			return VTransient
		case v == VWrongType:
			return VWrongType
		}
		return VOverrun
	}
	if api.NondetBool(fmt.Sprintf("%sfail:%s:%d", m.Tag, key, n)) {
		return VPermanent
	}
	return VOk
}

// Plugin is the model plugin: its verdict for each invocation is a solver variable.
type Plugin struct {
	PName string
	Check bool
	NoReq bool // a plugin that takes no request object (Request() returns nil)
	M     *Mon
}

func (p *Plugin) Name() string             { return p.PName }
func (p *Plugin) ValidateReq(req any) error {
	if p.NoReq {
		if req != nil {
			return fmt.Errorf("this plugin takes no request")
		}
		return nil
	}
	r, ok := req.(Req)
	if !ok {
		return fmt.Errorf("request has the wrong type")
	}
	if r.N < 0 {
		return fmt.Errorf("request rejected")
	}
	return nil
}
func (p *Plugin) Request() any {
	if p.NoReq {
		return nil
	}
	return Req{}
}
func (p *Plugin) Response() any             { return Resp{} }
func (p *Plugin) IsCheck() bool             { return p.Check }
func (p *Plugin) Init() error               { return nil }
func (p *Plugin) RetryPolicy() exponential.Policy {
	return exponential.Policy{InitialInterval: time.Millisecond, Multiplier: 1.1, RandomizationFactor: 0, MaxInterval: 2 * time.Millisecond}
}

func (p *Plugin) Execute(ctx context.Context, req any) (any, *plugins.Error) {
	m := p.M
	id := wctx.ActionID(ctx)
	m.mu.Lock()
	in := m.ByID[id]
	if in == nil {
		m.mu.Unlock()
		api.Assert(false, "plugin invoked for an action the harness does not know (context carries no/unknown action id)")
		return nil, &plugins.Error{Message: "unknown action", Permanent: true}
	}
	key := in.Key
	m.Calls[key]++
	c := &Call{Key: key, N: m.Calls[key]}
	m.Inflight[key]++
	m.Log = append(m.Log, c)
	m.mu.Unlock()

	api.Yield("enter:" + key)
	m.mu.Lock()
	if m.OnEnter != nil {
		m.OnEnter(in, c)
	}
	c.Verdict = m.verdict(key, c.N)
	m.mu.Unlock()

	if c.Verdict == VOverrun {
		// the attempt outlives its deadline; a correct engine cancels the plugin's context
		api.ExpireDeadline(ctx)
		<-ctx.Done()
		c.CtxErr = ctx.Err() != nil
		// an overrun call counts as finished from the instant its context is done: the engine abandons it by design,
		// and a plugin that is merely on its way out must not be reported as "still executing"
		m.mu.Lock()
		m.Inflight[key]--
		m.mu.Unlock()
	}
	api.Yield("exit:" + key)
	m.mu.Lock()
	if c.Verdict != VOverrun {
		m.Inflight[key]--
	}
	c.Done = true
	if m.OnExit != nil {
		m.OnExit(in, c)
	}
	m.mu.Unlock()

	switch c.Verdict {
	case VOk:
		return Resp{N: c.N}, nil
	case VPermanent:
		return nil, &plugins.Error{Message: "permanent", Permanent: true}
	case VTransient:
		return nil, &plugins.Error{Message: "transient", Permanent: false}
	case VWrongType:
		return WrongResp{S: "junk"}, nil
	}
	return nil, &plugins.Error{Message: "cancelled", Permanent: false}
}

// NewRegistry registers one action plugin ("action") and one check plugin ("check") backed by m.
func NewRegistry(m *Mon) *registry.Register {
	reg := registry.New()
	reg.MustRegister(&Plugin{PName: "action", M: m})
	reg.MustRegister(&Plugin{PName: "check", Check: true, M: m})
	reg.MustRegister(&Plugin{PName: "noreq", Check: true, NoReq: true, M: m})
	return reg
}

// ---------- model vault ----------

// AttemptImage is the durable record of one attempt.
type AttemptImage struct {
	HasErr    bool
	Permanent bool
	HasResp   bool
	Start     time.Time
	End       time.Time
}

// Image is the durable record of one object: exactly the columns the SQLite updaters write.
type Image struct {
	Kind     workflow.ObjectType
	Name     string
	Status   workflow.Status
	Start    time.Time
	End      time.Time
	Reason   workflow.FailureReason
	Attempts []AttemptImage
}

// Write is one entry of the write log.
type Write struct {
	ID  uuid.UUID
	Img Image
}

type Vault struct {
	private.Storage
	mu      sync.Mutex
	Img     map[uuid.UUID]*Image
	Log     []Write
	Plans   map[uuid.UUID]*workflow.Plan // definition of created plans (live objects of the running engine)
	OnWrite func(v *Vault, id uuid.UUID, old *Image, w *Write)
	Reads   int
	Frozen  bool // any write while frozen is recorded in LateWrites
	LateWrites int
	LastFilters []storage.Filters
	Order       []uuid.UUID // creation order of plans
	SeedOrder   []uuid.UUID // every object id in walk order (deterministic iteration)
	Coarse      bool // record every non-zero instant as CoarseInstant (a clock that never visibly ticks during the run)
	ReadUnknownEmpty bool // mimic a store whose Read of an unknown id returns an empty plan and no error
}

func NewVault() *Vault {
	return &Vault{Img: map[uuid.UUID]*Image{}, Plans: map[uuid.UUID]*workflow.Plan{}}
}

func attemptImages(as []*workflow.Attempt) []AttemptImage {
	var out []AttemptImage
	for _, a := range as {
		out = append(out, AttemptImage{HasErr: a.Err != nil, Permanent: a.Err != nil && a.Err.Permanent, HasResp: a.Resp != nil, Start: a.Start, End: a.End})
	}
	return out
}

// CoarseInstant is what every recorded instant becomes in a Coarse vault.
var CoarseInstant = time.Unix(1_700_000_000, 0).UTC()

func coarse(t time.Time) time.Time {
	if t.IsZero() {
		return t
	}
	return CoarseInstant
}

func (v *Vault) write(tag string, id uuid.UUID, img Image) error {
	if v.Coarse {
		// a clock too coarse to tell any two instants of this run apart: every recorded time is the same instant
		// (start == end everywhere, which "start <= end" allows); zero times stay zero
		img.Start, img.End = coarse(img.Start), coarse(img.End)
		if len(img.Attempts) > 0 {
			as := make([]AttemptImage, len(img.Attempts))
			copy(as, img.Attempts)
			for i := range as {
				as[i].Start, as[i].End = coarse(as[i].Start), coarse(as[i].End)
			}
			img.Attempts = as
		}
	}
	v.mu.Lock()
	old := v.Img[id]
	w := Write{ID: id, Img: img}
	v.Log = append(v.Log, w)
	cp := img
	v.Img[id] = &cp
	if v.Frozen {
		v.LateWrites++
	}
	if v.OnWrite != nil {
		v.OnWrite(v, id, old, &v.Log[len(v.Log)-1])
	}
	v.mu.Unlock()
	api.Yield("w:" + tag + ":" + img.Name)
	return nil
}

// Seed records the initial durable image of every object of p (what Create stores).
func (v *Vault) Seed(p *workflow.Plan) {
	v.Plans[p.ID] = p
	v.Order = append(v.Order, p.ID)
	for it := range walk.Plan(p) {
		switch x := it.Value.(type) {
		case *workflow.Plan:
			v.SeedOrder = append(v.SeedOrder, x.ID)
			v.Img[x.ID] = &Image{Kind: workflow.OTPlan, Name: x.Name, Status: x.State.Status, Start: x.State.Start, End: x.State.End, Reason: x.Reason}
		case *workflow.Checks:
			v.SeedOrder = append(v.SeedOrder, x.ID)
			v.Img[x.ID] = &Image{Kind: workflow.OTCheck, Name: ChecksName(x), Status: x.State.Status, Start: x.State.Start, End: x.State.End}
		case *workflow.Block:
			v.SeedOrder = append(v.SeedOrder, x.ID)
			v.Img[x.ID] = &Image{Kind: workflow.OTBlock, Name: x.Name, Status: x.State.Status, Start: x.State.Start, End: x.State.End}
		case *workflow.Sequence:
			v.SeedOrder = append(v.SeedOrder, x.ID)
			v.Img[x.ID] = &Image{Kind: workflow.OTSequence, Name: x.Name, Status: x.State.Status, Start: x.State.Start, End: x.State.End}
		case *workflow.Action:
			v.SeedOrder = append(v.SeedOrder, x.ID)
			v.Img[x.ID] = &Image{Kind: workflow.OTAction, Name: x.Name, Status: x.State.Status, Start: x.State.Start, End: x.State.End, Attempts: attemptImages(x.Attempts)}
		}
	}
}

// ChecksName derives a name for a checks group from its first action ("plan.pre.a0" -> "plan.pre").
func ChecksName(c *workflow.Checks) string {
	if len(c.Actions) == 0 {
		return "checks"
	}
	n := c.Actions[0].Name
	for i := len(n) - 1; i >= 0; i-- {
		if n[i] == '.' {
			return n[:i]
		}
	}
	return n
}

func (v *Vault) UpdatePlan(ctx context.Context, p *workflow.Plan) error {
	return v.write("plan", p.ID, Image{Kind: workflow.OTPlan, Name: p.Name, Status: p.State.Status, Start: p.State.Start, End: p.State.End, Reason: p.Reason})
}
func (v *Vault) UpdateChecks(ctx context.Context, c *workflow.Checks) error {
	return v.write("checks", c.ID, Image{Kind: workflow.OTCheck, Name: ChecksName(c), Status: c.State.Status, Start: c.State.Start, End: c.State.End})
}
func (v *Vault) UpdateBlock(ctx context.Context, b *workflow.Block) error {
	return v.write("block", b.ID, Image{Kind: workflow.OTBlock, Name: b.Name, Status: b.State.Status, Start: b.State.Start, End: b.State.End})
}
func (v *Vault) UpdateSequence(ctx context.Context, s *workflow.Sequence) error {
	return v.write("seq", s.ID, Image{Kind: workflow.OTSequence, Name: s.Name, Status: s.State.Status, Start: s.State.Start, End: s.State.End})
}
func (v *Vault) UpdateAction(ctx context.Context, a *workflow.Action) error {
	return v.write("action", a.ID, Image{Kind: workflow.OTAction, Name: a.Name, Status: a.State.Status, Start: a.State.Start, End: a.State.End, Attempts: attemptImages(a.Attempts)})
}

func (v *Vault) Create(ctx context.Context, p *workflow.Plan) error {
	v.mu.Lock()
	defer v.mu.Unlock()
	if _, ok := v.Plans[p.ID]; ok {
		return fmt.Errorf("plan already exists")
	}
	v.Seed(p)
	return nil
}

func (v *Vault) Close(ctx context.Context) error { return nil }

func (v *Vault) Delete(ctx context.Context, id uuid.UUID) error {
	v.mu.Lock()
	defer v.mu.Unlock()
	if _, ok := v.Plans[id]; !ok {
		return fmt.Errorf("plan not found")
	}
	delete(v.Plans, id)
	return nil
}

func (v *Vault) Exists(ctx context.Context, id uuid.UUID) (bool, error) {
	v.mu.Lock()
	defer v.mu.Unlock()
	_, ok := v.Plans[id]
	return ok, nil
}

// applyImage overwrites the engine-owned fields of a (copied) plan with the durable image.
func (v *Vault) applyImage(p *workflow.Plan) {
	for it := range walk.Plan(p) {
		switch x := it.Value.(type) {
		case *workflow.Plan:
			im := v.Img[x.ID]
			x.State = &workflow.State{Status: im.Status, Start: im.Start, End: im.End}
			x.Reason = im.Reason
		case *workflow.Checks:
			im := v.Img[x.ID]
			x.State = &workflow.State{Status: im.Status, Start: im.Start, End: im.End}
		case *workflow.Block:
			im := v.Img[x.ID]
			x.State = &workflow.State{Status: im.Status, Start: im.Start, End: im.End}
		case *workflow.Sequence:
			im := v.Img[x.ID]
			x.State = &workflow.State{Status: im.Status, Start: im.Start, End: im.End}
		case *workflow.Action:
			im := v.Img[x.ID]
			x.State = &workflow.State{Status: im.Status, Start: im.Start, End: im.End}
			x.Attempts = nil
			for _, at := range im.Attempts {
				na := &workflow.Attempt{Start: at.Start, End: at.End}
				if at.HasErr {
					na.Err = &plugins.Error{Message: "stored error", Permanent: at.Permanent}
				}
				if at.HasResp {
					na.Resp = Resp{}
				}
				x.Attempts = append(x.Attempts, na)
			}
		}
	}
}

// Read returns a fresh deep copy of the stored plan built from the durable image, as a real vault does.
func (v *Vault) Read(ctx context.Context, id uuid.UUID) (*workflow.Plan, error) {
	api.Yield("r:plan")
	v.mu.Lock()
	defer v.mu.Unlock()
	v.Reads++
	p, ok := v.Plans[id]
	if !ok {
		if v.ReadUnknownEmpty {
			return &workflow.Plan{}, nil
		}
		return nil, fmt.Errorf("plan not found")
	}
	cp := api.DeepCopy(p)
	v.applyImage(cp)
	v.mu.Unlock()
	api.Yield("r:done") // the caller now holds a snapshot that may go stale
	v.mu.Lock()
	return cp, nil
}

// Search implements the specified filter semantics over the durable image (status filter only).
func (v *Vault) Search(ctx context.Context, f storage.Filters) (chan storage.Stream[storage.ListResult], error) {
	v.mu.Lock()
	defer v.mu.Unlock()
	v.LastFilters = append(v.LastFilters, f)
	var res []storage.ListResult
	for _, id := range v.Order {
		p := v.Plans[id]
		if p == nil {
			continue
		}
		im := v.Img[id]
		match := len(f.ByStatus) == 0
		for _, s := range f.ByStatus {
			if im.Status == s {
				match = true
			}
		}
		if match {
			res = append(res, storage.ListResult{ID: id, Name: p.Name, Descr: p.Descr, SubmitTime: p.SubmitTime, State: &workflow.State{Status: im.Status, Start: im.Start, End: im.End}})
		}
	}
	ch := make(chan storage.Stream[storage.ListResult], len(res)+1)
	for _, r := range res {
		ch <- storage.Stream[storage.ListResult]{Result: r}
	}
	close(ch)
	return ch, nil
}

func (v *Vault) List(ctx context.Context, limit int) (chan storage.Stream[storage.ListResult], error) {
	return v.Search(ctx, storage.Filters{})
}

var _ storage.Vault = (*Vault)(nil)

// ---------- durable image after a crash ----------

// ImageAt returns the durable image after the first c writes of the log, c being a (possibly symbolic)
// crash index. Every scalar is an ite chain over the writes of its object (api.Ite*, no forking); only the
// number of stored attempts per action, which is structure, is resolved by a solver-guided split.
func (v *Vault) ImageAt(c int, init map[uuid.UUID]*Image) map[uuid.UUID]*Image {
	out := map[uuid.UUID]*Image{}
	// writes per object, in log order
	per := map[uuid.UUID][]int{}
	for i, w := range v.Log {
		per[w.ID] = append(per[w.ID], i)
	}
	for _, id := range v.SeedOrder {
		i0 := init[id]
		if i0 == nil {
			continue
		}
		im := &Image{Kind: i0.Kind, Name: i0.Name, Status: i0.Status, Start: i0.Start, End: i0.End, Reason: i0.Reason}
		st, rs := int(i0.Status), int(i0.Reason)
		nAtt := len(i0.Attempts)
		maxAtt := nAtt
		for _, wi := range per[id] {
			w := v.Log[wi].Img
			durable := wi < c // the (wi+1)-th write is durable when c >= wi+1
			st = api.IteInt(durable, int(w.Status), st)
			rs = api.IteInt(durable, int(w.Reason), rs)
			im.Start = api.IteTime(durable, w.Start, im.Start)
			im.End = api.IteTime(durable, w.End, im.End)
			nAtt = api.IteInt(durable, len(w.Attempts), nAtt)
			if len(w.Attempts) > maxAtt {
				maxAtt = len(w.Attempts)
			}
		}
		im.Status = workflow.Status(st)
		im.Reason = workflow.FailureReason(rs)
		if i0.Kind == workflow.OTAction && maxAtt > 0 {
			n := api.Concretize(nAtt, 0, maxAtt)
			for ai := 0; ai < n; ai++ {
				var at AttemptImage
				set := false
				for _, wi := range per[id] {
					w := v.Log[wi].Img
					if len(w.Attempts) <= ai {
						continue
					}
					wa := w.Attempts[ai]
					if !set {
						at = wa
						set = true
						continue
					}
					durable := wi < c
					at.HasErr = api.IteBool(durable, wa.HasErr, at.HasErr)
					at.Permanent = api.IteBool(durable, wa.Permanent, at.Permanent)
					at.HasResp = api.IteBool(durable, wa.HasResp, at.HasResp)
					at.Start = api.IteTime(durable, wa.Start, at.Start)
					at.End = api.IteTime(durable, wa.End, at.End)
				}
				if !set && ai < len(i0.Attempts) {
					at = i0.Attempts[ai]
				}
				im.Attempts = append(im.Attempts, at)
			}
		}
		out[id] = im
	}
	return out
}

// Snapshot copies the current durable image (used as the initial image of a later ImageAt).
func (v *Vault) Snapshot() map[uuid.UUID]*Image {
	out := map[uuid.UUID]*Image{}
	for id, im := range v.Img {
		cp := *im
		cp.Attempts = append([]AttemptImage(nil), im.Attempts...)
		out[id] = &cp
	}
	return out
}

// SeedImage installs an explicit durable image for plan p (recovered process).
func (v *Vault) SeedImage(p *workflow.Plan, img map[uuid.UUID]*Image) {
	v.Seed(p)
	for id, im := range img {
		cp := *im
		v.Img[id] = &cp
	}
}

// ApplyImage overwrites the engine-owned fields of p (a private copy) with img, as a vault Read would return them.
func (v *Vault) ApplyImage(p *workflow.Plan) { v.applyImage(p) }

// StatusAt returns the durable status of one object after the first c writes of the log (ite chain, no forking).
func (v *Vault) StatusAt(id uuid.UUID, c int, init workflow.Status) workflow.Status {
	st := int(init)
	for i, w := range v.Log {
		if w.ID == id {
			st = api.IteInt(i < c, int(w.Img.Status), st)
		}
	}
	return workflow.Status(st)
}
