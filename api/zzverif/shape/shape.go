// Package shape builds workflow.Plan trees whose structure is picked by bounded case splits
// (api.Choose), so that one harness covers every shape within the stated bound.
package shape

import (
	"fmt"

	"github.com/element-of-surprise/coercion/internal/zzverif/api"
	"github.com/element-of-surprise/coercion/workflow"
)

// Group indices, in execution order.
const (
	GBypass = iota
	GPre
	GCont
	GPost
	GDeferred
)

var GroupNames = [5]string{"bypass", "pre", "cont", "post", "deferred"}

// Family of group subsets.
const (
	GroupsNone         = 0 // no check groups
	GroupsFamily       = 1 // none, each single group, all five (7 subsets)
	GroupsAll          = 2 // all 32 subsets
	GroupsNoneOrAll    = 3 // none or all five
	GroupsContDeferred = 4 // continuous checks, with or without deferred checks
	GroupsDeferred     = 5 // deferred checks only
	GroupsCont         = 6 // continuous checks only
)

type Cfg struct {
	MinBlocks, MaxBlocks   int
	MinSeqs, MaxSeqs       int
	MinActions, MaxActions int
	PlanGroups             int // GroupsNone / GroupsFamily / GroupsAll
	BlockGroups            int
	CheckActions           int  // actions per check group (exactly)
	NilSlices              bool // when a count is 0, also split nil vs empty slice
	WithState              bool // give every object an ID and a pristine State (as Submit does)
	SimpleTailBlocks       bool // blocks after the first: no groups, one sequence with one action
	SimpleTailSeqs         bool // sequences after the first of a block: exactly one action
	ActionPlugin           string
	CheckPlugin            string
	Req                    any
}

func count(name string, lo, hi int) int {
	if hi <= lo {
		return lo
	}
	return lo + api.Choose(name, hi-lo+1)
}

func mask(name string, family int) int {
	switch family {
	case GroupsFamily:
		k := api.Choose(name, 7)
		switch {
		case k == 0:
			return 0
		case k == 6:
			return 31
		default:
			return 1 << (k - 1)
		}
	case GroupsAll:
		return api.Choose(name, 32)
	case GroupsNoneOrAll:
		return 31 * api.Choose(name, 2)
	case GroupsDeferred:
		return 1 << GDeferred
	case GroupsCont:
		return 1 << GCont
	case GroupsContDeferred:
		return 1<<GCont | api.Choose(name, 2)<<GDeferred
	}
	return 0
}

func (c Cfg) action(name, plugin string) *workflow.Action {
	a := &workflow.Action{Name: name, Descr: name, Plugin: plugin, Req: c.Req}
	if c.WithState {
		a.ID = workflow.NewV7()
		a.State = &workflow.State{}
	}
	return a
}

func (c Cfg) checks(name string) *workflow.Checks {
	ch := &workflow.Checks{}
	n := c.CheckActions
	if n <= 0 {
		n = 1
	}
	for i := 0; i < n; i++ {
		ch.Actions = append(ch.Actions, c.action(fmt.Sprintf("%s.a%d", name, i), c.CheckPlugin))
	}
	if c.WithState {
		ch.ID = workflow.NewV7()
		ch.State = &workflow.State{}
	}
	return ch
}

func (c Cfg) groups(owner string, m int) [5]*workflow.Checks {
	var g [5]*workflow.Checks
	for i := 0; i < 5; i++ {
		if m&(1<<i) != 0 {
			g[i] = c.checks(owner + "." + GroupNames[i])
		}
	}
	return g
}

// Plan builds one plan of a shape chosen within cfg's bounds.
func Plan(c Cfg) *workflow.Plan {
	if c.ActionPlugin == "" {
		c.ActionPlugin = "action"
	}
	if c.CheckPlugin == "" {
		c.CheckPlugin = "check"
	}
	p := &workflow.Plan{Name: "plan", Descr: "plan"}
	if c.WithState {
		p.ID = workflow.NewV7()
		p.State = &workflow.State{}
	}
	pm := mask("plan.groups", c.PlanGroups)
	api.Fact("i:plan.groups", fmt.Sprint(pm))
	g := c.groups("plan", pm)
	p.BypassChecks, p.PreChecks, p.ContChecks, p.PostChecks, p.DeferredChecks = g[0], g[1], g[2], g[3], g[4]

	nb := count("blocks", c.MinBlocks, c.MaxBlocks)
	if nb == 0 && c.NilSlices && api.Choose("blocks.nil", 2) == 1 {
		p.Blocks = nil
	} else {
		p.Blocks = []*workflow.Block{}
	}
	for bi := 0; bi < nb; bi++ {
		bn := fmt.Sprintf("b%d", bi)
		b := &workflow.Block{Name: bn, Descr: bn}
		if c.WithState {
			b.ID = workflow.NewV7()
			b.State = &workflow.State{}
		}
		simple := c.SimpleTailBlocks && bi > 0
		bm := 0
		if !simple {
			bm = mask(bn+".groups", c.BlockGroups)
		}
		api.Fact("i:"+bn+".groups", fmt.Sprint(bm))
		bg := c.groups(bn, bm)
		b.BypassChecks, b.PreChecks, b.ContChecks, b.PostChecks, b.DeferredChecks = bg[0], bg[1], bg[2], bg[3], bg[4]
		ns := 1
		if !simple {
			ns = count(bn+".seqs", c.MinSeqs, c.MaxSeqs)
		}
		if ns == 0 && c.NilSlices && api.Choose(bn+".seqs.nil", 2) == 1 {
			b.Sequences = nil
		} else {
			b.Sequences = []*workflow.Sequence{}
		}
		for si := 0; si < ns; si++ {
			sn := fmt.Sprintf("%s.s%d", bn, si)
			s := &workflow.Sequence{Name: sn, Descr: sn}
			if c.WithState {
				s.ID = workflow.NewV7()
				s.State = &workflow.State{}
			}
			na := 1
			if !simple && !(c.SimpleTailSeqs && si > 0) {
				na = count(sn+".actions", c.MinActions, c.MaxActions)
			}
			if na == 0 && c.NilSlices && api.Choose(sn+".actions.nil", 2) == 1 {
				s.Actions = nil
			} else {
				s.Actions = []*workflow.Action{}
			}
			for ai := 0; ai < na; ai++ {
				s.Actions = append(s.Actions, c.action(fmt.Sprintf("%s.a%d", sn, ai), c.ActionPlugin))
			}
			b.Sequences = append(b.Sequences, s)
		}
		p.Blocks = append(p.Blocks, b)
	}
	api.Fact("i:blocks", fmt.Sprint(nb))
	return p
}

// Groups returns the five check groups of a plan in execution order.
func PlanGroups(p *workflow.Plan) [5]*workflow.Checks {
	return [5]*workflow.Checks{p.BypassChecks, p.PreChecks, p.ContChecks, p.PostChecks, p.DeferredChecks}
}

// BlockGroups returns the five check groups of a block in execution order.
func BlockGroups(b *workflow.Block) [5]*workflow.Checks {
	return [5]*workflow.Checks{b.BypassChecks, b.PreChecks, b.ContChecks, b.PostChecks, b.DeferredChecks}
}

// DbgChecks builds one checks group (development aid).
func (c Cfg) DbgChecks(name string) *workflow.Checks {
	c.WithState = true
	if c.CheckPlugin == "" {
		c.CheckPlugin = "check"
	}
	return c.checks(name)
}
